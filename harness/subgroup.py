"""Subgroup check and cofactor clearing (C17) on toy curves with a cofactor."""
from __future__ import annotations

import random
from multiprocessing import Pool

from . import tables, toy
from .core import Ctx, NCPU

# name -> field (q, d), b coefficients, order = h * r, heff (a multiple of h, prime to r), group (1 or 2)
INST = {
    "E19b4": dict(q=19, d=1, b=[4], order=21, r=7, h=3, heff=3 * 5, g=1),
    "E13b4": dict(q=13, d=1, b=[4], order=21, r=7, h=3, heff=3, g=1),
    "E43b9": dict(q=43, d=1, b=[9], order=57, r=19, h=3, heff=3 * 22, g=1),
    "E43b6": dict(q=43, d=1, b=[6], order=39, r=13, h=3, heff=3 * 14, g=1),
    "E67b4": dict(q=67, d=1, b=[4], order=57, r=19, h=3, heff=3 * 67, g=1),
    "T7b03": dict(q=7, d=2, b=[0, 3], order=39, r=13, h=3, heff=3 * 7, g=2),
    "T11b13": dict(q=11, d=2, b=[1, 3], order=133, r=19, h=7, heff=7 * 3 * 11, g=2),
    "T19b04": dict(q=19, d=2, b=[0, 4], order=399, r=19, h=21, heff=21 * 20, g=2),
    "T23b12": dict(q=23, d=2, b=[1, 2], order=553, r=79, h=7, heff=7 * 80, g=2, tier="thorough"),
    "T67b44": dict(q=67, d=2, b=[4, 4], order=4381, r=337, h=13, heff=13 * 338, g=2, tier="thorough"),
}


def spec_fields():
    return [{"p": v["q"], "d": v["d"], "mc": [0] if v["d"] == 1 else [1, 0]} for v in INST.values()]


def spec_curves():
    return [{"f": k + 1, "a": [0] * v["d"], "b": v["b"], "order": v["order"], "r": v["r"], "h": v["h"],
             "heff": v["heff"]} for k, v in enumerate(INST.values())]


def _mul(a, b, q):
    if len(a) == 1:
        return [a[0] * b[0] % q]
    return [(a[0] * b[0] - a[1] * b[1]) % q, (a[0] * b[1] + a[1] * b[0]) % q]


def points(v):
    q, d, b = v["q"], v["d"], v["b"]
    els = toy.elems(q, d)
    sq = {}
    for y in els:
        sq.setdefault(tuple(_mul(y, y, q)), []).append(y)
    pts = []
    for x in els:
        x3 = _mul(_mul(x, x, q), x, q)
        rhs = tuple((x3[k] + b[k]) % q for k in range(d))
        for y in sq.get(rhs, []):
            pts.append((x, y))
    assert len(pts) + 1 == v["order"]
    return pts


_mods = {}


def modules(name):
    if name not in _mods:
        v = INST[name]
        g2p = toy.private_module("py_ecc/bls/g2_primitives.py", "py_ecc.bls")
        g2p.curve_order = v["r"]
        cc = toy.private_module("py_ecc/optimized_bls12_381/optimized_clear_cofactor.py",
                                "py_ecc.optimized_bls12_381")
        cc.H_EFF_G1 = v["heff"]
        cc.H_EFF_G2 = v["heff"]
        _mods[name] = (g2p, cc)
    return _mods[name]


def _job(job):
    name, op, items = job
    v = INST[name]
    g2p, cc = modules(name)
    q, d = v["q"], v["d"]
    cls = toy.field_classes(q, d, (0,) if d == 1 else (1, 0), "opt")
    ci = list(INST).index(name) + 1
    rows = []
    for R in items:
        P = tuple(toy.mk(cls, d, c) for c in R)
        r = {"c": ci, "op": op, "P": R}
        try:
            if op == "sub":
                val = g2p.subgroup_check(P)
                r["r"] = (1 if val else 0) if isinstance(val, bool) else f"BADVALUE:{val!r}"[:60]
            else:
                fn = cc.multiply_clear_cofactor_G1 if v["g"] == 1 else cc.multiply_clear_cofactor_G2
                r["r"] = [toy.proj(c, d) for c in fn(P)]
        except Exception as e:  # noqa: BLE001
            r["r"] = f"EXC:{type(e).__name__}:{e}"[:100]
        rows.append(r)
    return rows


def build(tier, seed):
    rng = random.Random(seed + 53)
    jobs = []
    for name, v in INST.items():
        if tier == "quick" and v.get("tier") == "thorough":
            continue
        q, d = v["q"], v["d"]
        pts = points(v)
        one, zero = [1] + [0] * (d - 1), [0] * d
        units = [e for e in toy.elems(q, d) if any(e)]
        reps = [[one, one, zero], [zero, one, zero], [zero, zero, zero], [rng.choice(units), rng.choice(units), zero]]
        for R in pts:
            for lam in [one, rng.choice(units)] + ([rng.choice(units)] if len(pts) < 200 else []):
                reps.append([_mul(R[0], lam, q), _mul(R[1], lam, q), list(lam)])
        jobs.append((name, "sub", reps))
        jobs.append((name, "clear", reps))
    work = []
    for ji, (name, op, items) in enumerate(jobs):
        for k in range(0, len(items), 300):
            work.append((ji, (name, op, items[k:k + 300])))
    with Pool(NCPU) as pool:
        parts = pool.map(_wrap, work, chunksize=1)
    by = {}
    for (ji, _), rows in zip(work, parts):
        by.setdefault(ji, []).extend(rows)
    rows, claims = [], []
    for ji, (name, op, items) in enumerate(jobs):
        lo = len(rows) + 1
        rows.extend(by[ji])
        claims.append({"c": list(INST).index(name) + 1, "op": op, "lo": lo, "hi": len(rows)})
    return rows, claims


def _wrap(w):
    return _job(w[1])


def subgroup_tables(ctx: Ctx):
    rows, claims = build(ctx.tier, ctx.seed)
    names = list(INST)
    ctx.log(f"subgroup tables: {len(rows)} rows (every point of {len(claims) // 2} toy curves with a cofactor)")
    for r in rows[:: max(1, len(rows) // 5)][:5]:
        ctx.sample(r)
    ctx.note("instances", {k: {x: y for x, y in v.items()} for k, v in INST.items()})
    ctx.add_cov("rows_in_subgroup", sum(1 for r in rows if r["op"] == "sub" and r["r"] == 1))
    ctx.add_cov("rows_outside_subgroup", sum(1 for r in rows if r["op"] == "sub" and r["r"] == 0))
    ctx.exhaustive = True
    fl, cv = spec_fields(), spec_curves()
    if ctx.tier == "quick":
        keep = [i for i, v in enumerate(INST.values()) if v.get("tier") != "thorough"]
        # indices stay valid: thorough-only instances are last
        fl, cv = [fl[i] for i in keep], [cv[i] for i in keep]
    tables.validate(ctx, "SubgroupTable", rows, invariants=["CurvesOK", "ClaimsOK", "RowsOK"],
                    files={"FIELDS": fl, "CURVES": cv, "CLAIMS": claims},
                    tag=lambda r: f"{names[r['c'] - 1]}:{r['op']}",
                    describe=lambda r: f"{names[r['c'] - 1]} {r}")
