"""Field layer (C08, C14): tables and programs from py_ecc's real field classes."""
from __future__ import annotations

import itertools
import json
import random
from multiprocessing import Pool

from . import toy
from .core import Guarded, limited, NCPU, CallTimeout

# ----------------------------------------------------------------------------- catalogue
# (name, p, d, raw modulus_coeffs as handed to py_ecc, exhaustive-binary?, tier)
BN_MC = (82, 0, 0, 0, 0, 0, -18, 0, 0, 0, 0, 0)
BLS_MC = (2, 0, 0, 0, 0, 0, -2, 0, 0, 0, 0, 0)

CATALOGUE = [
    # prime fields
    dict(name="GF2", p=2, d=1, mc=(0,)), dict(name="GF3", p=3, d=1, mc=(0,)),
    dict(name="GF5", p=5, d=1, mc=(0,)), dict(name="GF7", p=7, d=1, mc=(0,)),
    dict(name="GF11", p=11, d=1, mc=(0,)), dict(name="GF13", p=13, d=1, mc=(0,)),
    dict(name="GF31", p=31, d=1, mc=(0,)), dict(name="GF251", p=251, d=1, mc=(0,), tier="thorough"),
    # defined like the library's own fields: subclasses (only field_modulus overridden) of an instantiated class
    # over another prime
    dict(name="GF17sub7", p=17, d=1, mc=(0,), parent=7),
    dict(name="GF13^2sub5", p=13, d=2, mc=(2, 0), parent=5),
    dict(name="GF7^2sub_mc", p=7, d=2, mc=(3, 1), parent=(7, (1, 0))),      # same prime, only the modulus overridden
    # quadratic, i^2 = -1 as in both curves
    dict(name="GF3^2", p=3, d=2, mc=(1, 0)), dict(name="GF7^2", p=7, d=2, mc=(1, 0)),
    dict(name="GF11^2", p=11, d=2, mc=(1, 0)),
    dict(name="GF19^2", p=19, d=2, mc=(1, 0), tier="thorough"),
    # quadratic with other moduli (incl. a non-zero linear and a negative raw coefficient)
    dict(name="GF5^2a", p=5, d=2, mc=(-2, 0)), dict(name="GF5^2b", p=5, d=2, mc=(2, 1)),
    dict(name="GF5^2c", p=5, d=2, mc=(1, 1)),          # equal non-zero modulus coefficients
    # other degrees through the generic FQP class
    dict(name="GF2^3", p=2, d=3, mc=(1, 1, 0)), dict(name="GF3^3", p=3, d=3, mc=(1, 2, 0)),
    dict(name="GF2^4", p=2, d=4, mc=(1, 0, 0, 1)), dict(name="GF5^3", p=5, d=3, mc=(1, 2, 0)),
    dict(name="GF3^4", p=3, d=4, mc=(2, 1, 0, 0)), dict(name="GF2^6", p=2, d=6, mc=(1, 0, 0, 1, 0, 0)),
    dict(name="GF7^3", p=7, d=3, mc=(-4, 0, 0)),
    # degree 12
    dict(name="GF2^12s", p=2, d=12, mc=(1, 0, 0, 1, 0, 0, 0, 0, 0, 0, 0, 0)),
    dict(name="GF2^12d", tier="thorough", p=2, d=12, mc=(1, 0, 1, 0, 0, 1, 1, 0, 1, 0, 0, 1)),
    dict(name="GF3^12s", p=3, d=12, mc=(2, 0, 1, 0, 0, 0, 0, 0, 0, 0, 0, 0)),
    dict(name="GF3^12d", p=3, d=12, mc=(1, 1, 1, 2, 0, 1, 0, 1, 2, 2, 2, 2)),      # dense, repeated coefficients
    dict(name="GF5^12", tier="thorough", p=5, d=12, mc=(4, 1, 0, 0, 0, 0, 0, 0, 0, 0, 0, 0)),
    dict(name="GF7^12bn", p=7, d=12, mc=(82 % 7, 0, 0, 0, 0, 0, -18 % 7, 0, 0, 0, 0, 0)),
    dict(name="GF7^12d", tier="thorough", p=7, d=12, mc=(3, 4, 0, 6, 1, 5, 1, 4, 4, 1, 6, 0)),
    dict(name="GF19^12bls", p=19, d=12, mc=BLS_MC),   # raw negative coefficient, as in the library
    dict(name="GF83^12bn", p=83, d=12, mc=BN_MC),      # raw 82 / -18, as in the library
]


for _f in CATALOGUE:
    if _f.get("parent"):
        toy.PARENTS[(_f["p"], _f["d"], tuple(_f["mc"]))] = _f["parent"]


def spec_field(f):
    return {"p": f["p"], "d": f["d"], "mc": [c % f["p"] for c in f["mc"]]}


def size(f):
    return f["p"] ** f["d"]


def bits(n):
    out = []
    while n:
        out.append(n & 1)
        n >>= 1
    return out


def special_elems(f, rng, n):
    """Operands for sampled tables: structured corner cases plus seeded random ones."""
    p, d = f["p"], f["d"]
    if size(f) <= n:
        return toy.elems(p, d)
    out = [[0] * d, [1] + [0] * (d - 1), [p - 1] + [0] * (d - 1), [p - 1] * d, [1] * d]
    for k in range(d):
        e = [0] * d
        e[k] = 1
        out.append(e)
        e = [0] * d
        e[k] = p - 1
        out.append(e)
    out.append([0] + [rng.randrange(p) for _ in range(d - 1)])
    out.append([rng.randrange(p) for _ in range(d - 1)] + [0])
    out.append([rng.randrange(p) if k % 2 else 0 for k in range(d)])
    while len(out) < n:
        out.append([rng.randrange(p) for _ in range(d)])
    seen, res = set(), []
    for e in out:
        if tuple(e) not in seen:
            seen.add(tuple(e))
            res.append(e)
    return res


def int_operands(p, rng):
    ks = [-(2 * p + 1), -p - 1, -p, -1, 0, 1, 2, p - 1, p, p + 1, 2 * p + 3, 3 * p]
    ks += [rng.randrange(-10 ** 6, 10 ** 6) for _ in range(3)]
    return ks


def exponents(f, rng, tier):
    p, d = f["p"], f["d"]
    q = p ** d
    es = [0, 1, 2, 3, 4, 5, p - 1, p, p + 1, q - 2, q - 1, q, q + 1, 2 * q - 1]
    es += [rng.getrandbits(64), rng.getrandbits(190), rng.getrandbits(760) | (1 << 759)]
    if tier == "thorough":
        es += [rng.getrandbits(3000) | (1 << 2999), rng.getrandbits(4400) | (1 << 4399)]
    return sorted(set(e for e in es if e >= 0))


# ----------------------------------------------------------------------------- row production
def _safe(fn):
    try:
        return limited(fn, 60)
    except CallTimeout:
        raise       # non-termination: abort the job, reported by main
    except RecursionError:
        return "EXC:RecursionError"
    except Exception as e:  # noqa: BLE001 -- any exception is recorded as the observed value
        return f"EXC:{type(e).__name__}:{e}"[:120]


def _rows_job(job):
    fi, f, fam, op, operands = job
    p, d = f["p"], f["d"]
    cls = toy.field_classes(p, d, f["mc"], fam)
    mk = lambda c: toy.mk(cls, d, c)  # noqa: E731
    pr = lambda x: toy.proj(x, d) if not isinstance(x, str) else x  # noqa: E731
    rows = []
    base = {"f": fi, "fam": fam, "op": op}
    for o in operands:
        r = dict(base)
        if op in ("augadd", "augsub", "augmul"):
            a, b = o
            r["a"], r["b"] = a, b
            x = mk(a)
            yb = x if a == b else mk(b)              # x op= x when the operands are equal

            def aug(x=x, yb=yb, op=op):
                y = x
                if op == "augadd":
                    y += yb
                elif op == "augsub":
                    y -= yb
                else:
                    y *= yb
                return y
            res = _safe(aug)
            r["r"] = pr(res)
            r["x"] = pr(x) if not isinstance(res, str) else a
            rows.append(r)
            continue
        if op in ("add", "sub", "mul", "div"):
            a, b = o
            r["a"], r["b"] = a, b
            x, y = mk(a), mk(b)
            if a == b and (len(rows) % 2 or not any(a)):   # the SAME object on both sides (x / x, x - x): every other time, and always for zero
                y = x
            r["r"] = pr(_safe({"add": lambda: x + y, "sub": lambda: x - y, "mul": lambda: x * y,
                               "div": lambda: x / y}[op]))
        elif op in ("eq", "ne"):
            a, b = o
            r["a"], r["b"] = a, b
            x, y = mk(a), mk(b)
            v = _safe((lambda: x == y) if op == "eq" else (lambda: x != y))
            r["r"] = (1 if v else 0) if isinstance(v, bool) else str(v)
        elif op in ("lt", "le", "gt", "ge"):
            a, b = o
            r["a"], r["b"] = a, b
            x, y = mk(a), mk(b)
            v = _safe({"lt": lambda: x < y, "le": lambda: x <= y, "gt": lambda: x > y, "ge": lambda: x >= y}[op])
            r["r"] = (1 if v else 0) if isinstance(v, bool) else str(v)
        elif op == "int":
            r["a"] = o
            x = mk(o)
            v = _safe(lambda: int(x))
            r["r"] = v if isinstance(v, int) and not isinstance(v, bool) else str(v)
        elif op == "neg":
            r["a"] = o
            x = mk(o)
            r["r"] = pr(_safe(lambda: -x))
        elif op == "inv":
            r["a"] = o
            x = mk(o)
            if d == 1:
                r["r"] = pr(_safe(lambda: 1 / x))
            else:
                r["r"] = pr(_safe(lambda: x.inv()))
        elif op in ("invq", "mulq", "divq"):
            # elements built from FQ-OBJECT coefficients (the classes accept IntOrFQ); same laws, same rows
            fq1 = toy.field_classes(p, 1, (0,), fam)
            mkq = lambda c: cls([fq1(v) for v in c])  # noqa: E731
            r["op"], r["via"] = op[:-1], "fq-object coefficients"
            if op == "invq":
                r["a"] = o
                x = mkq(o)
                r["r"] = pr(_safe(lambda: x.inv()))
            else:
                a, b = o
                r["a"], r["b"] = a, b
                x, y = mkq(a), mkq(b)
                r["r"] = pr(_safe((lambda: x * y) if op == "mulq" else (lambda: x / y)))
        elif op in ("sgn0", "sgn0q"):
            r["a"] = o
            if op == "sgn0q":       # the same element built from FQ-object coefficients (the classes accept IntOrFQ)
                r["op"], r["via"] = "sgn0", "fq-object coefficients"
                fq1 = toy.field_classes(p, 1, (0,), fam)
                x = cls([fq1(c) for c in o]) if d in (2, 12) else cls([fq1(c) for c in o])
            else:
                x = mk(o)
            v = _safe(lambda: x.sgn0)
            r["r"] = v if isinstance(v, str) else int(v)
        elif op == "pow":
            a, e = o
            r["a"], r["n"] = a, bits(e)
            x = mk(a)
            r["r"] = pr(_safe(lambda: x ** e))
        elif op in ("iadd", "iradd", "isub", "irsub", "imul", "irmul", "idiv", "irdiv"):
            a, k = o
            r["a"], r["k"] = a, k
            x = mk(a)
            fn = {"iadd": lambda: x + k, "iradd": lambda: k + x, "isub": lambda: x - k,
                  "irsub": lambda: k - x, "imul": lambda: x * k, "irmul": lambda: k * x,
                  "idiv": lambda: x / k, "irdiv": lambda: k / x}[op]
            r["r"] = pr(_safe(fn))
        elif op == "ieq":
            a, k = o
            r["a"], r["k"] = a, k
            x = mk(a)
            v = _safe(lambda: x == k)
            r["r"] = (1 if v else 0) if isinstance(v, bool) else str(v)
        elif op in ("one", "zero"):
            r["r"] = pr(_safe(lambda: getattr(cls, op)()))
        elif op in ("ctor", "ctorq"):
            r["k"] = o
            if op == "ctorq":           # an element built from another element, and from a bool (an int subtype)
                r["op"], r["via"] = "ctor", "FQ(FQ(k))"
                r["r"] = pr(_safe(lambda: cls(cls(o))))
            else:
                r["r"] = pr(_safe(lambda: cls(o)))
        elif op == "ctorv":
            r["a"] = o
            r["r"] = pr(_safe(lambda: cls(list(o))))
        else:
            raise ValueError(op)
        rows.append(r)
    return rows


def build_tables(tier: str, seed: int, families=("ref", "opt"), log=lambda *a: None, lite=False):
    """Return (fields, rows, claims). Rows of one claim are contiguous."""
    rng = random.Random(seed)
    fields, jobs = [], []
    quick = tier == "quick"
    cat = [f for f in CATALOGUE if quick is False or f.get("tier") != "thorough"]
    for fi, f in enumerate(cat, start=1):
        fields.append(spec_field(f))
        p, d = f["p"], f["d"]
        n = size(f)
        big = d >= 6
        unary_cap = 5000 if quick else 70000
        binary_cap = (30 if lite else 50) if quick else 130   # all pairs when |F| <= cap
        el_un = toy.elems(p, d) if n <= unary_cap else special_elems(f, rng, 60 if quick else 400)
        ex_un = n <= unary_cap
        if n <= binary_cap:
            el_bin = toy.elems(p, d)
            pairs = [(a, b) for a in el_bin for b in el_bin]
            ex_bin = True
        else:
            sp = special_elems(f, rng, (14 if big else 24) if quick else (36 if big else 60))
            pairs = [(a, b) for a in sp for b in sp]
            ex_bin = False
        ks = int_operands(p, rng)
        small = special_elems(f, rng, 12)
        es = exponents(f, rng, tier)
        if big:   # long exponents on a degree-12 field cost TLC seconds per row
            pow_ops = ([(a, e) for a in small[:12] for e in es if e.bit_length() <= 64]
                       + [(a, e) for a in small[5:(7 if quick else 9)] for e in es if e.bit_length() > 64])
        else:
            pow_ops = [(a, e) for a in small for e in es]
        for fam in families:
            def add(op, operands, arity=0, exhaustive=False):
                jobs.append(((fi, f, fam, op, operands), arity if exhaustive else 0))
            for op in ("add", "sub", "mul", "div", "eq", "ne"):
                add(op, pairs, 2, ex_bin)
            for op in ("augadd", "augsub", "augmul"):
                add(op, pairs[:400] + [(a_, a_) for a_ in el_un[:40]])
            if d == 1:
                for op in ("lt", "le", "gt", "ge"):
                    add(op, pairs if len(pairs) <= 1000 else pairs[:1000])
                add("int", el_un, 1, ex_un)
            add("neg", el_un, 1, ex_un)
            add("inv", el_un, 1, ex_un)
            if fam == "opt":
                add("sgn0", el_un, 1, ex_un)
                if d > 1:
                    add("sgn0q", el_un[:600])
                    add("invq", el_un[:600])
                    add("mulq", pairs[:300])
                    add("divq", pairs[:300])
            add("pow", pow_ops)
            if ex_un and n <= (600 if quick else 5000):
                add("pow", [(a, e) for a in el_un for e in (0, 1, 2, 3, n - 2, n - 1, n)])
            int_ops = (("iadd", "iradd", "isub", "irsub", "imul", "irmul", "idiv", "irdiv")
                       if d == 1 else ("imul", "irmul", "idiv"))
            for op in int_ops:
                add(op, [(a, k) for a in small for k in ks])
            if d == 1:
                add("ieq", [(a, k) for a in small for k in range(min(p, 40))])
                add("ctor", ks)
                add("ctorq", ks)
            else:
                add("ctorv", [[rng.randrange(-3 * p, 3 * p) for _ in range(d)] for _ in range(6)])
            add("one", [None])
            add("zero", [None])
    # split big jobs so the pool balances
    work = []
    for ji, (job, arity) in enumerate(jobs):
        fi, f, fam, op, operands = job
        step = 400 if f["d"] >= 6 else 4000
        for c in range(0, len(operands), step):
            work.append((ji, (fi, f, fam, op, operands[c:c + step])))
    log(f"field tables: {len(jobs)} jobs, {sum(len(j[0][4]) for j in jobs)} rows to produce")
    with Pool(NCPU) as pool:
        parts = pool.map(Guarded(_job_wrap), work, chunksize=1)
    by_job = {}
    for (ji, _), rows in zip(work, parts):
        by_job.setdefault(ji, []).extend(rows)
    rows, claims = [], []
    for ji, (job, arity) in enumerate(jobs):
        lo = len(rows) + 1
        rows.extend(by_job.get(ji, []))
        if arity:
            claims.append({"f": job[0], "fam": job[2], "op": job[3], "arity": arity,
                           "lo": lo, "hi": len(rows)})
    return cat, fields, rows, claims


def _job_wrap(w):
    return _rows_job(w[1])


def write_ndjson(path, items):
    with open(path, "w") as fh:
        for it in items:
            fh.write(json.dumps(it, separators=(",", ":")))
            fh.write("\n")
