"""Full-size traces of the curve modules validated against the abstract group (GroupTrace.tla)."""
from __future__ import annotations

import importlib
import json
import random
from concurrent.futures import ThreadPoolExecutor
from multiprocessing import Pool

from . import toy
from .constants import limbs
from .core import Ctx, Guarded, MachineryError, NCPU

# ----------------------------------------------------------------------------- own arithmetic (projection only)
def f_inv(p, a):
    return pow(a % p, p - 2, p)


def f2_mul(p, a, b):
    return ((a[0] * b[0] - a[1] * b[1]) % p, (a[0] * b[1] + a[1] * b[0]) % p)


def f2_inv(p, a):
    n = f_inv(p, (a[0] * a[0] + a[1] * a[1]) % p)
    return (a[0] * n % p, (-a[1]) * n % p)


def f2_pow(p, a, e):
    r = (1, 0)
    while e:
        if e & 1:
            r = f2_mul(p, r, a)
        a = f2_mul(p, a, a)
        e >>= 1
    return r


def f2_sqrt(p, a):
    """A square root in Fp[i]/(i^2+1), p = 3 mod 4, or None (input generation only)."""
    if a == (0, 0):
        return (0, 0)
    a1 = f2_pow(p, a, (p - 3) // 4)
    alpha = f2_mul(p, a1, f2_mul(p, a1, a))
    a0 = f2_mul(p, f2_pow(p, alpha, p), alpha)
    if a0 == (p - 1, 0):
        return None
    x0 = f2_mul(p, a1, a)
    if alpha == (p - 1, 0):
        return f2_mul(p, (0, 1), x0)
    b = f2_pow(p, ((1 + alpha[0]) % p, alpha[1]), (p - 1) // 2)
    return f2_mul(p, b, x0)


_SYLOW3 = {}


def f2_cbrt(p, a, rng):
    """A cube root of a in Fp[i]/(i^2+1) or None (input generation only).  q - 1 = 3^s t: a^(1/3 mod t) is right
    up to an element of the 3-Sylow subgroup (3^s elements, searched)."""
    q1 = p * p - 1
    s, t = 0, q1
    while t % 3 == 0:
        s, t = s + 1, t // 3
    if a == (0, 0):
        return (0, 0)
    if f2_pow(p, a, q1 // 3) != (1, 0):
        return None
    if p not in _SYLOW3:
        while True:
            g = f2_pow(p, (rng.randrange(p), rng.randrange(1, p)), t)
            if f2_pow(p, g, 3 ** (s - 1)) != (1, 0):
                break
        els, cur = [], (1, 0)
        for _ in range(3 ** s):
            els.append(cur)
            cur = f2_mul(p, cur, g)
        _SYLOW3[p] = els
    e = pow(3, -1, t)
    c0 = f2_pow(p, a, e)
    for d in _SYLOW3[p]:
        x = f2_mul(p, c0, d)
        if f2_mul(p, f2_mul(p, x, x), x) == a:
            return x
    return None


def f_cbrt(p, a, rng):
    """A cube root of a in Fp or None (input generation only)."""
    a %= p
    if a == 0:
        return 0
    if (p - 1) % 3:
        return pow(a, pow(3, -1, p - 1), p)
    if pow(a, (p - 1) // 3, p) != 1:
        return None
    s, t = 0, p - 1
    while t % 3 == 0:
        s, t = s + 1, t // 3
    key = ("fp", p)
    if key not in _SYLOW3:
        while True:
            g = pow(rng.randrange(2, p), t, p)
            if pow(g, 3 ** (s - 1), p) != 1:
                break
        els, cur = [], 1
        for _ in range(3 ** s):
            els.append(cur)
            cur = cur * g % p
        _SYLOW3[key] = els
    c0 = pow(a, pow(3, -1, t), p)
    for d in _SYLOW3[key]:
        x = c0 * d % p
        if pow(x, 3, p) == a:
            return x
    return None


def points_with_y(p, rng, ys, deg, b=None):
    """Curve points (x, y) of y^2 = x^3 + b with a PRESCRIBED y (x is a cube root of y^2 - b): input generation."""
    out = []
    for y in ys:
        if deg == 1:
            x = f_cbrt(p, (y[0] * y[0] - (b or (4,))[0]) % p, rng)
            if x is not None:
                out.append(((x,), y))
        else:
            bb = b or (4, 4)
            y2 = f2_mul(p, y, y)
            x = f2_cbrt(p, ((y2[0] - bb[0]) % p, (y2[1] - bb[1]) % p), rng)
            if x is not None:
                out.append((x, y))
    return out


def real_y_twist_points(p, rng, count, b2=(4, 4)):
    """Points (x, y) of y^2 = x^3 + b2 over Fp2 whose y is real or purely imaginary (input generation only)."""
    out = []
    for _ in range(200 * count):
        yr = rng.randrange(1, p)
        y = (yr, 0) if rng.random() < 0.5 else (0, yr)
        y2 = f2_mul(p, y, y)
        x = f2_cbrt(p, ((y2[0] - b2[0]) % p, (y2[1] - b2[1]) % p), rng)
        if x is not None:
            out.append((x, y))
            if len(out) >= count:
                break
    return out


def coeffs(x):
    if hasattr(x, "coeffs"):
        return tuple(int(c) if isinstance(c, int) else int(c.n) for c in x.coeffs)
    return (int(x.n),)


SPECS = {
    # name: (package, family, curve)
    "bn128": ("py_ecc.bn128", "ref", "bn"),
    "optimized_bn128": ("py_ecc.optimized_bn128", "opt", "bn"),
    "bls12_381": ("py_ecc.bls12_381", "ref", "bls"),
    "optimized_bls12_381": ("py_ecc.optimized_bls12_381", "opt", "bls"),
}
ELLS = {("bls", 1): [3, 11], ("bls", 2): [13, 23], ("bn", 1): [1], ("bn", 2): [10069]}


class Api:
    def __init__(self, mname, group):
        pkg, fam, curve = SPECS[mname]
        m = importlib.import_module(pkg)
        self.m, self.fam, self.curve, self.group, self.name = m, fam, curve, group, mname
        self.p = m.field_modulus
        self.r = m.curve_order
        self.F = m.FQ if group == 1 else m.FQ2
        self.b = m.b if group == 1 else m.b2
        self.G = m.G1 if group == 1 else m.G2
        self.O = (m.Z1 if group == 1 else m.Z2)
        self.deg = group

    def el(self, c):
        return self.F(c[0]) if self.deg == 1 else self.F(list(c))

    def from_affine(self, xy, lam=None):
        x, y = self.el(xy[0]), self.el(xy[1])
        if self.fam == "ref":
            return (x, y)
        if lam is None:
            return (x, y, self.F.one())
        L = self.el(lam)
        return (x * L, y * L, L)

    def affine(self, P):
        """Canonical affine coordinates as plain ints (own arithmetic), or 'INF'."""
        p = self.p
        if self.fam == "ref":
            if P is None:
                return "INF"
            return (coeffs(P[0]), coeffs(P[1]))
        x, y, z = coeffs(P[0]), coeffs(P[1]), coeffs(P[2])
        if not any(z):
            return "INF"
        if self.deg == 1:
            zi = f_inv(p, z[0])
            return ((x[0] * zi % p,), (y[0] * zi % p,))
        zi = f2_inv(p, z)
        return (f2_mul(p, x, zi), f2_mul(p, y, zi))

    def random_point(self, rng):
        p = self.p
        bc = coeffs(self.b)
        while True:
            if self.deg == 1:
                x = rng.randrange(p)
                rhs = (x * x * x + bc[0]) % p
                y = pow(rhs, (p + 1) // 4, p)
                if y * y % p == rhs:
                    return ((x,), (y,))
            else:
                x = (rng.randrange(p), rng.randrange(p))
                x3 = f2_mul(p, f2_mul(p, x, x), x)
                rhs = ((x3[0] + bc[0]) % p, (x3[1] + bc[1]) % p)
                y = f2_sqrt(p, rhs)
                if y is not None and f2_mul(p, y, y) == rhs:
                    return (x, y)


class Builder:
    def __init__(self, api: Api, ell, rng, order_total):
        self.api, self.ell, self.rng = api, ell, rng
        self.order_total = order_total
        self.regs = []
        self.events = []
        self.ids = {"INF": 0}
        self.dead = False

    def _id(self, P):
        a = self.api.affine(P)
        if a not in self.ids:
            self.ids[a] = len(self.ids)
        return self.ids[a]

    def _ev(self, **kw):
        e = {"op": "", "d": 0, "a": 0, "b": 0, "n": [], "sg": 1, "id": 0, "id2": 0, "res": -1, "exc": ""}
        e.update(kw)
        self.events.append(e)

    def prod(self, op, fn, a=0, b=0, n=None, sg=1):
        if self.dead:
            return 0
        try:
            P = fn()
            pid = self._id(P)
        except Exception as ex:  # noqa: BLE001
            self._ev(op=op, a=a, b=b, n=limbs(abs(n)) if n is not None else [], sg=sg,
                     exc=f"EXC:{type(ex).__name__}:{ex}"[:120])
            self.dead = True
            return 0
        self.regs.append(P)
        d = len(self.regs)
        self._ev(op=op, d=d, a=a, b=b, n=limbs(abs(n)) if n is not None else [], sg=sg, id=pid)
        return d

    def obs(self, op, fn, a=0, b=0):
        if self.dead:
            return
        try:
            v = fn()
            if not isinstance(v, bool):
                raise TypeError(f"non-boolean result {v!r}")
            self._ev(op=op, a=a, b=b, res=1 if v else 0)
        except Exception as ex:  # noqa: BLE001
            self._ev(op=op, a=a, b=b, exc=f"EXC:{type(ex).__name__}:{ex}"[:120])
            self.dead = True

    def R(self, i):
        return self.regs[i - 1]


def build_trace(job):
    mname, group, ell, seed, tier = job
    api = Api(mname, group)
    m = api.m
    rng = random.Random(seed)
    quick = tier == "quick"
    r, p = api.r, api.p
    B = Builder(api, ell, rng, None)
    g = B.prod("gen", lambda: api.G)
    o = B.prod("inf", lambda: api.O)
    t = 0
    if ell > 1:
        # total group order from the library's own constants is NOT used: #E = h * r with the cofactor
        # implied by ell is established by the events  ell * T = O,  T # O  below
        from . import constants as _c  # noqa: F401
        if api.curve == "bls":
            z = 0xd201000000010000
            h = (z + 1) ** 2 // 3 if group == 1 else (z ** 8 + 4 * z ** 7 + 5 * z ** 6 - 4 * z ** 4 - 6 * z ** 3 - 4 * z ** 2 + 4 * z + 13) // 9
        else:
            h = 2 * p - r
        assert h % ell == 0
        cof = h * r
        while cof % ell == 0:
            cof //= ell                      # W -> cof W lands in the ell-Sylow subgroup
        while True:
            W = api.from_affine(api.random_point(rng))
            T = m.multiply(W, cof)
            if api.affine(T) == "INF":
                continue
            for _ in range(8):               # walk down to a point of order exactly ell
                T2 = m.multiply(T, ell)
                if api.affine(T2) == "INF":
                    break
                T = T2
            break
        t = B.prod("tor", lambda: T)
        lt = B.prod("mul", lambda: m.multiply(B.R(t), ell), a=t, n=ell)       # must be the identity
    specials = [0, 1, 2, 3, r - 1, r, r + 1, 2 * p - r, rng.getrandbits(255), rng.getrandbits(640) | (1 << 639)]
    if not quick:
        specials += [rng.getrandbits(k) for k in (64, 128, 254, 256, 381, 512)] + [r - 2, 2 * r, p, ell * r]
    # all-ones, single-bit and neighbouring scalars at word boundaries and beyond the float mantissa (appended, so
    # that the indices used below stay what they were)
    kk = rng.choice([49, 53, 63]), rng.choice([64, 100, 128]), rng.choice([200, 254, 255])
    specials += [(1 << k) - 1 for k in kk] + [1 << kk[0], (1 << kk[1]) + 1, (1 << 53) - 1]
    specials += [rng.getrandbits(4200) | (1 << 4199)]            # far beyond the group order (recursion depth ~4200)
    if not quick:
        specials += [(1 << k) - 1 for k in (49, 50, 52, 53, 63, 64, 127, 255, 256)] + [1 << 64, (1 << 255) + 1]
    muls = []
    for n in specials:
        muls.append(B.prod("mul", lambda: m.multiply(B.R(g), n), a=g, n=n))
    # a call that fails half way (malformed point, odd scalar) must leave nothing behind for the calls that follow
    try:
        bad = (B.R(g)[0], "not a field element") + tuple(B.R(g)[2:])
        m.multiply(bad, 7)
    except Exception:  # noqa: BLE001
        pass
    # an equality is what the abstract group can decide: every special multiple n G is produced a second time
    # along an independent path, a G + (n - a) G with a random split, and must be the same point
    for k_, n in enumerate(specials):
        if n >= 4:
            a_ = rng.randrange(1, n)
            ma = B.prod("mul", lambda: m.multiply(B.R(g), a_), a=g, n=a_)
            mb = B.prod("mul", lambda: m.multiply(B.R(g), n - a_), a=g, n=n - a_)
            B.prod("add", lambda: m.add(B.R(ma), B.R(mb)), a=ma, b=mb)
    pool = [g, o] + muls[:]
    if t:
        s1 = B.prod("add", lambda: m.add(B.R(muls[4]), B.R(t)), a=muls[4], b=t)      # (r-1)G + T
        s2 = B.prod("add", lambda: m.add(B.R(t), B.R(muls[8])), a=t, b=muls[8])      # T + kG
        dt = B.prod("double", lambda: m.double(B.R(t)), a=t)
        pool += [t, s1, s2, dt]
        for n in (r, ell, r + 1, rng.getrandbits(200), ell * r):
            pool.append(B.prod("mul", lambda: m.multiply(B.R(s2), n), a=s2, n=n))
        pool.append(B.prod("mul", lambda: m.multiply(B.R(t), rng.getrandbits(300)), a=t, n=None) if False else s1)
    # additions: crafted and random
    pairs = [(g, g), (g, o), (o, g), (o, o), (muls[2], muls[2]), (muls[1], muls[4]), (muls[4], muls[1]),
             (muls[5], muls[2]), (muls[8], muls[9])]
    pairs += [(rng.choice(pool), rng.choice(pool)) for _ in range(8 if quick else 40)]
    for (a, b) in pairs:
        ab = B.prod("add", lambda: m.add(B.R(a), B.R(b)), a=a, b=b)
        pool.append(ab)
        # the same sums along other paths (equalities are what the abstract group decides): b + a, (a + b) + c and
        # a + (b + c) for another register c
        B.prod("add", lambda: m.add(B.R(b), B.R(a)), a=b, b=a)
        c = rng.choice(pool)
        B.prod("add", lambda: m.add(B.R(ab), B.R(c)), a=ab, b=c)
        bc = B.prod("add", lambda: m.add(B.R(b), B.R(c)), a=b, b=c)
        B.prod("add", lambda: m.add(B.R(a), B.R(bc)), a=a, b=bc)
    for _ in range(4 if quick else 16):
        a = rng.choice(pool)
        da = B.prod("double", lambda: m.double(B.R(a)), a=a)
        pool.append(da)
        B.prod("add", lambda: m.add(B.R(a), B.R(a)), a=a, b=a)                             # 2a as a + a
        B.prod("mul", lambda: m.multiply(B.R(a), 2), a=a, n=2)                             # and as multiply(a, 2)
        a = rng.choice(pool)
        ng = B.prod("neg", lambda: m.neg(B.R(a)), a=a)
        pool.append(ng)
        pool.append(B.prod("add", lambda: m.add(B.R(a), B.R(ng)), a=a, b=ng))            # P + (-P)
    for _ in range(3 if quick else 12):
        a = rng.choice(pool)
        n = rng.choice([rng.getrandbits(255), rng.getrandbits(32), r - 1, 5])
        pool.append(B.prod("mul", lambda: m.multiply(B.R(a), n), a=a, n=n))
    if api.fam == "opt" and not B.dead:
        # other projective representatives of existing registers, and operations on them
        for _ in range(5 if quick else 20):
            a = rng.choice([x for x in pool if x and api.affine(B.R(x)) != "INF"] or [g])
            aff = api.affine(B.R(a))
            lam = (rng.randrange(1, p),) if group == 1 else (rng.randrange(p), rng.randrange(1, p))
            sc = B.prod("same", lambda: api.from_affine(aff, lam), a=a)
            pool.append(sc)
            b = rng.choice(pool)
            pool.append(B.prod("add", lambda: m.add(B.R(sc), B.R(b)), a=sc, b=b))
            pool.append(B.prod("add", lambda: m.add(B.R(sc), B.R(a)), a=sc, b=a))       # doubling through add
            B.obs("eq", lambda: m.eq(B.R(sc), B.R(a)), a=sc, b=a)
        nz = B.prod("same", lambda: m.normalize(B.R(muls[8])) + (api.F.one(),), a=muls[8])
        pool.append(nz)
    pool = [x for x in pool if x]
    # observations
    for a in pool:
        bq = api.b
        B.obs("onc", lambda: m.is_on_curve(B.R(a), bq), a=a)
        B.obs("isinf", lambda: m.is_inf(B.R(a)), a=a)
    sample = pool if len(pool) <= 14 else rng.sample(pool, 14)
    for a in sample:
        for b in sample:
            B.obs("eq", lambda: m.eq(B.R(a), B.R(b)), a=a, b=b)
    if mname == "optimized_bls12_381" and not B.dead:
        from py_ecc.bls import g2_primitives as g2p
        from py_ecc.bls import hash_to_curve as h2c
        from py_ecc.optimized_bls12_381 import constants as oc
        for a in pool:
            B.obs("sub", lambda: g2p.subgroup_check(B.R(a)), a=a)
        clr = h2c.clear_cofactor_G1 if group == 1 else h2c.clear_cofactor_G2
        heff = oc.H_EFF_G1 if group == 1 else oc.H_EFF_G2
        for a in (pool if len(pool) < 12 else rng.sample(pool, 10 if quick else 30)) + [g, o] + ([t] if t else []):
            c = B.prod("clear", lambda: clr(B.R(a)), a=a)
            if c:
                B.obs("sub", lambda: g2p.subgroup_check(B.R(c)), a=c)
        # the identity with FQ-OBJECT zero coefficients in z (the classes accept IntOrFQ)
        try:
            F_ = api.F
            zobj = F_(0) if group == 1 else F_([m.FQ(0), m.FQ(0)])
            oq = B.prod("inf", lambda: (F_.one(), F_.one(), zobj))
            if oq:
                B.obs("sub", lambda: g2p.subgroup_check(B.R(oq)), a=oq)
                B.obs("isinf", lambda: m.is_inf(B.R(oq)), a=oq)
                B.prod("add", lambda: m.add(B.R(oq), B.R(g)), a=oq, b=g)
        except Exception:  # noqa: BLE001 -- recorded by the events above when they fail
            pass
        from py_ecc.optimized_bls12_381 import optimized_clear_cofactor as occ
        clr_low = occ.multiply_clear_cofactor_G1 if group == 1 else occ.multiply_clear_cofactor_G2
        for _ in range(2 if quick else 8):      # arbitrary curve points (unknown logarithm)
            if B.dead:
                break
            W = api.from_affine(api.random_point(rng))
            try:
                c1 = clr(W) if _ % 2 == 0 else clr_low(W)          # the entry point of hash_to_curve and the low-level one
                c2 = m.multiply(W, heff)
                B._ev(op="clrany", n=limbs(heff), id=B._id(c1), id2=B._id(c2),
                      res=1 if g2p.subgroup_check(c1) is True else 0)
            except Exception as ex:  # noqa: BLE001
                B._ev(op="clrany", exc=f"EXC:{type(ex).__name__}:{ex}"[:120])
                B.dead = True
    params = {"curve": api.curve, "group": group, "ell": ell}
    return {"name": f"{mname}_G{group}_l{ell}", "params": params, "events": B.events}


def build_g12(job):
    """The degree-12 curve E(Fp12) at full size: generators twist(G2) and the image of G1; the trace labels
    twist(k G2) as k * twist(G2) and cast(k G1) as k * cast(G1), so the twist / cast homomorphisms are part of
    what 'equal abstract <=> equal id' demands."""
    mname, seed, tier = job
    pkg, fam, curve = SPECS[mname]
    m = importlib.import_module(pkg)
    pm = importlib.import_module(pkg + "." + ("bn128_pairing" if mname == "bn128" else "bls12_381_pairing" if mname == "bls12_381"
                                               else "optimized_pairing"))
    ref = importlib.import_module("py_ecc.bn128" if curve == "bn" else "py_ecc.bls12_381")
    rng = random.Random(seed)
    quick = tier == "quick"
    r = m.curve_order
    regs, events, ids = [], [], {"INF": 0}

    def aff(P):
        if fam == "ref":
            return "INF" if P is None else (coeffs(P[0]), coeffs(P[1]))
        x, y, z = (ref.FQ12(list(coeffs(c))) for c in P)         # projection through the OTHER family's division
        if not any(coeffs(z)):
            return "INF"
        return (coeffs(x / z), coeffs(y / z))

    def ev(**kw):
        e = {"op": "", "d": 0, "a": 0, "b": 0, "n": [], "sg": 1, "id": 0, "id2": 0, "res": -1, "exc": ""}
        e.update(kw)
        events.append(e)

    def prod(op, fn, a=0, b=0, n=None):
        try:
            P = fn()
            k = aff(P)
            if k not in ids:
                ids[k] = len(ids)
            i = ids[k]
        except Exception as ex:  # noqa: BLE001
            ev(op=op, a=a, b=b, exc=f"EXC:{type(ex).__name__}:{ex}"[:120])
            raise
        regs.append(P)
        ev(op=op, d=len(regs), a=a, b=b, n=limbs(abs(n)) if n is not None else [], id=i)
        return len(regs)
    try:
        g = prod("gen", lambda: m.G12)
        t = prod("tor", lambda: pm.cast_point_to_fq12(m.G1))
        o = prod("inf", lambda: (m.Z1 if fam == "ref" else (m.FQ12.one(), m.FQ12.one(), m.FQ12.zero())))
        ks = [2, 3, r - 1, r, rng.randrange(1, r)] + ([] if quick else [r + 1, rng.getrandbits(300)])
        pool = [g, t, o]
        for k in ks[: (3 if quick else len(ks))]:
            pool.append(prod("mul", lambda: m.multiply(regs[g - 1], k), a=g, n=k))
            pool.append(prod("mul", lambda: m.twist(m.multiply(m.G2, k)), a=g, n=k))            # twist(k G2)
            pool.append(prod("mul", lambda: pm.cast_point_to_fq12(m.multiply(m.G1, k)), a=t, n=k))   # cast(k G1)
        pool.append(prod("mul", lambda: m.multiply(regs[t - 1], 5), a=t, n=5))
        pairs = [(g, t), (t, g), (g, g), (g, o), (pool[3], pool[4]), (pool[3], pool[5])] + \
            [(rng.choice(pool), rng.choice(pool)) for _ in range(3 if quick else 20)]
        for (a, b) in pairs:
            pool.append(prod("add", lambda: m.add(regs[a - 1], regs[b - 1]), a=a, b=b))
        a = pool[-1]
        pool.append(prod("double", lambda: m.double(regs[a - 1]), a=a))
        pool.append(prod("neg", lambda: m.neg(regs[a - 1]), a=a))
        pool.append(prod("mul", lambda: m.multiply(regs[a - 1], 7), a=a, n=7))
        for a in pool:
            try:
                v = m.is_on_curve(regs[a - 1], m.b12)
                ev(op="onc", a=a, res=1 if v is True else 0)
            except Exception as ex:  # noqa: BLE001
                ev(op="onc", a=a, exc=f"EXC:{type(ex).__name__}:{ex}"[:120])
        for a in pool[:8]:
            for b in pool[:8]:
                ev(op="eq", a=a, b=b, res=1 if m.eq(regs[a - 1], regs[b - 1]) is True else 0)
    except Exception:  # noqa: BLE001 -- recorded in the last event
        pass
    return {"name": f"{mname}_G12", "params": {"curve": curve, "group": 12, "ell": 0}, "events": events}


def build_secp(job):
    seed, tier = job
    from py_ecc.secp256k1 import secp256k1 as s
    rng = random.Random(seed)
    quick = tier == "quick"
    N, P = s.N, s.P
    regs, events, ids = [], [], {(0, 0): 0}

    def pid(pt):
        pt = (int(pt[0]), int(pt[1]))
        if pt not in ids:
            ids[pt] = len(ids)
        return ids[pt]

    def ev(**kw):
        e = {"op": "", "d": 0, "a": 0, "b": 0, "n": [], "sg": 1, "id": 0, "id2": 0, "res": -1, "exc": ""}
        e.update(kw)
        events.append(e)

    def prod(op, fn, a=0, b=0, n=None):
        try:
            pt = fn()
            i = pid(pt)
        except Exception as ex:  # noqa: BLE001
            ev(op=op, a=a, b=b, exc=f"EXC:{type(ex).__name__}:{ex}"[:120])
            raise
        regs.append(pt)
        ev(op=op, d=len(regs), a=a, b=b, n=limbs(abs(n)) if n is not None else [], sg=-1 if (n or 0) < 0 else 1, id=i)
        return len(regs)
    try:
        g = prod("gen", lambda: s.G)
        o = prod("inf", lambda: (0, 0))
        ns = [0, 1, 2, 3, N - 1, N, N + 1, 2 * N + 5, -1, -7, -N, -N - 3, rng.getrandbits(256), rng.getrandbits(512) | 1 << 511,
              -rng.getrandbits(300), P, 2 ** 256]
        if not quick:
            ns += [rng.getrandbits(k) for k in (8, 64, 128, 255, 257, 400)] + [-rng.getrandbits(k) for k in (8, 255, 512)]
        pool = [g, o]
        for n in ns:
            pool.append(prod("mul", lambda: s.multiply(regs[g - 1], n), a=g, n=n))
        for n in ns:            # the same multiple along an independent path: a G + (n - a) G
            if abs(n) >= 4:
                a_ = rng.randrange(1, abs(n))
                ma = prod("mul", lambda: s.multiply(regs[g - 1], a_), a=g, n=a_)
                mb = prod("mul", lambda: s.multiply(regs[g - 1], n - a_), a=g, n=n - a_)
                prod("add", lambda: s.add(regs[ma - 1], regs[mb - 1]), a=ma, b=mb)
        for d in (1, 2, N - 1, rng.randrange(1, N), N, N + 1, P - 1, P, P + 3, 2 ** 256 - 1, 2 ** 255):
            pool.append(prod("mul", lambda: s.privtopub(d.to_bytes(32, "big")), a=g, n=d))      # privtopub(d) = d G
        for d in (2 ** 256 + 5, rng.getrandbits(300) | 1 << 299):                                 # longer key strings
            pool.append(prod("mul", lambda: s.privtopub(d.to_bytes(40, "big")), a=g, n=d))
        for d, ln in ((1, 1), (0x0102, 2), (rng.getrandbits(240) | 1, 31), (7, 33)):               # shorter / padded ones
            pool.append(prod("mul", lambda: s.privtopub(d.to_bytes(ln, "big")), a=g, n=d))
        pairs = [(g, g), (g, o), (o, g), (o, o), (pool[3], pool[6]), (pool[6], pool[3])] + \
            [(rng.choice(pool), rng.choice(pool)) for _ in range(10 if quick else 60)]
        for (a, b) in pairs:
            ab = prod("add", lambda: s.add(regs[a - 1], regs[b - 1]), a=a, b=b)
            pool.append(ab)
            prod("add", lambda: s.add(regs[b - 1], regs[a - 1]), a=b, b=a)                 # the same sum along other paths
            c = rng.choice(pool)
            prod("add", lambda: s.add(regs[ab - 1], regs[c - 1]), a=ab, b=c)
            bc = prod("add", lambda: s.add(regs[b - 1], regs[c - 1]), a=b, b=c)
            prod("add", lambda: s.add(regs[a - 1], regs[bc - 1]), a=a, b=bc)
        for _ in range(4 if quick else 20):
            a = rng.choice(pool)
            n = rng.choice([rng.getrandbits(256), -rng.getrandbits(256), N - 1, -2, rng.getrandbits(512)])
            pool.append(prod("mul", lambda: s.multiply(regs[a - 1], n), a=a, n=n))
            a = rng.choice(pool)
            z = rng.randrange(1, P)
            pt = regs[a - 1]
            if pt != (0, 0):
                jac = (pt[0] * z * z % P, pt[1] * z * z * z % P, z)
                pool.append(prod("same", lambda: s.from_jacobian(jac), a=a))              # another Jacobian representative
                b = rng.choice(pool)
                jb = s.to_jacobian(regs[b - 1])
                pool.append(prod("add", lambda: s.from_jacobian(s.jacobian_add(jac, jb)), a=a, b=b))
                pool.append(prod("double", lambda: s.from_jacobian(s.jacobian_double(jac)), a=a))
    except Exception:  # noqa: BLE001 -- recorded in the last event
        pass
    return {"name": "secp256k1", "params": {"curve": "secp", "group": 1, "ell": 1}, "events": events}


CFG = "SPECIFICATION Spec\nINVARIANT Accepted\nINVARIANT Done\nCHECK_DEADLOCK FALSE\n"


def run_traces(ctx: Ctx, which, all_ells=False):
    """which: list of (module, group) or 'secp'."""
    jobs, sjobs, gjobs = [], [], []
    for k, w in enumerate(which):
        if w == "secp":
            sjobs.append((ctx.seed + 900 + k, ctx.tier))
        elif w[1] == 12:
            gjobs.append((w[0], ctx.seed + 800 + k, ctx.tier))
        else:
            mname, group = w
            curve = SPECS[mname][2]
            ells = ELLS[(curve, group)]
            if ctx.tier == "quick" and not all_ells:
                ells = ells[:1] if mname.startswith("optimized") else ells[-1:]
            for ell in ells:
                jobs.append((mname, group, ell, ctx.seed + 700 + 13 * k + ell, ctx.tier))
    with Pool(min(NCPU, max(1, len(jobs) + len(sjobs) + len(gjobs)))) as pool:
        r1 = pool.map_async(Guarded(build_trace), jobs, chunksize=1)
        r2 = pool.map_async(Guarded(build_secp), sjobs, chunksize=1)
        r3 = pool.map_async(Guarded(build_g12), gjobs, chunksize=1)
        traces = r1.get() + r2.get() + r3.get()
    ctx.log(f"group traces: {len(traces)} traces, {sum(len(t['events']) for t in traces)} events from the real modules")

    def validate(tr):
        d = ctx.tmp / f"gt_{tr['name']}"
        d.mkdir(exist_ok=True)
        (d / "trace.ndjson").write_text("".join(json.dumps(e, separators=(",", ":")) + "\n" for e in tr["events"]))
        (d / "params.ndjson").write_text(json.dumps(tr["params"]) + "\n")
        res = ctx.tlc("GroupTrace", CFG, env={"TRACE": str(d / "trace.ndjson"), "PARAMS": str(d / "params.ndjson")},
                      workers=1, name=f"GroupTrace_{tr['name']}", quiet=True, timeout=3400)
        return tr, res

    with ThreadPoolExecutor(NCPU) as ex:
        results = list(ex.map(validate, traces))
    import re
    for tr, res in results:
        n = len(tr["events"])
        done = any(ln.startswith('<<"consumed"') for ln in res.out.splitlines())
        ctx.log(f"GroupTrace {tr['name']}: {n} events, {'accepted' if done and not res.violations else 'REJECTED'} "
                f"({res.wall:.0f}s)")
        ctx.traces += 1
        ctx.add_cov("group_trace_events", n)
        if res.violations:
            v = res.violations[0]
            mm = re.search(r"\bl = (\d+)", v["trace"][-1]) if v["trace"] else None
            li = int(mm.group(1)) - 1 if mm else 0
            e = tr["events"][li - 1] if 1 <= li <= n else None
            ctx.violation(f"GroupTrace:{tr['name']}:{e['op'] if e else '?'}",
                          f"GroupTrace {tr['name']}: event {li} {e} is not what the abstract group predicts",
                          {"trace": tr["name"], "event_index": li, "event": e, "params": tr["params"],
                           "prefix": tr["events"][:li]})
        elif not done:
            raise MachineryError(f"GroupTrace {tr['name']}: trace not consumed and no violation reported")
    if traces:
        ctx.sample({"group_trace": traces[0]["name"], "events": [
            {k: v for k, v in e.items() if v not in (0, [], "", -1)} for e in traces[0]["events"][2:6]]})
