"""Core of the verification harness: scratch dirs, TLC runner, evidence, findings.

The harness never decides a verdict: expected values, accepted/rejected rows and
invariants are all evaluated by TLC from the modules in /verif/spec.  Python only
drives the implementation, records what it did, and reports what TLC said.
"""
from __future__ import annotations

import json
import multiprocessing
import os
import re
import shutil
import signal
import subprocess
import sys
import tempfile
import threading
import time
from pathlib import Path

VERIF = Path(__file__).resolve().parent.parent
SPEC = VERIF / "spec"
REPO = Path(os.environ.get("VERIF_REPO", "/repo"))
TLA_CP = "/opt/veriftools/tla/tla2tools.jar:/opt/veriftools/tla/CommunityModules-deps.jar"
# evidence / replay files go to /verif/evidence unless a trial run (tools/try_seed.sh) redirects them
EVID = Path(os.environ.get("VERIF_EVIDENCE_DIR", str(VERIF / "evidence")))
NCPU = int(os.environ.get("VERIF_WORKERS", str(os.cpu_count() or 4)))
# the checks always import py_ecc from the working tree under test (default /repo)
if str(REPO) not in sys.path:
    sys.path.insert(0, str(REPO))


class CallTimeout(Exception):
    """A call into the library did not return within its wall-clock limit (non-termination suspected)."""


_alarm_armed = False
_abort = multiprocessing.Value("i", 0)     # shared with forked pool workers


def _on_alarm(signum, frame):
    raise CallTimeout("call did not return within its time limit: non-termination suspected")


def limited(fn, seconds=60):
    """Run fn() under a wall-clock limit (main thread of the process only; pool workers qualify).  The limits
    used are several orders of magnitude above the normal duration of the guarded calls.  Nests: an enclosing
    limit keeps running."""
    global _alarm_armed
    if threading.current_thread() is not threading.main_thread():
        return fn()
    if not _alarm_armed:
        signal.signal(signal.SIGALRM, _on_alarm)
        _alarm_armed = True
    t0 = time.time()
    outer, _ = signal.setitimer(signal.ITIMER_REAL, seconds)
    if outer and outer < seconds:
        signal.setitimer(signal.ITIMER_REAL, outer)
    try:
        return fn()
    finally:
        signal.setitimer(signal.ITIMER_REAL, max(outer - (time.time() - t0), 0.01) if outer else 0)


def job_limit():
    """Wall-clock limit of one pool job: far above the longest legitimate job of the tier (backstop against a
    library call that never returns; the hot call sites have their own, much tighter, limits)."""
    v = os.environ.get("VERIF_JOB_LIMIT")
    if v:
        return float(v)
    return 2400.0 if os.environ.get("VERIF_TIER_RUNNING", "quick") == "quick" else 6 * 3600.0


class Guarded:
    """Picklable wrapper: pool.map(Guarded(job), jobs) runs every job under job_limit()."""

    def __init__(self, fn, seconds=None):
        self.fn, self.seconds = fn, seconds

    def __call__(self, *a, **kw):
        if _abort.value:        # an earlier job of this run did not terminate: fail the remaining jobs at once
            raise CallTimeout("aborted: an earlier job did not terminate")
        try:
            return limited(lambda: self.fn(*a, **kw), self.seconds or job_limit())
        except CallTimeout:
            _abort.value = 1
            raise


class MachineryError(Exception):
    """The harness or TLC itself failed (exit code 2) -- not a verdict."""


class TLCResult:
    def __init__(self):
        self.ok = False
        self.generated = 0
        self.distinct = 0
        self.violations = []  # list of dict(kind, name, trace:list[str])
        self.prints = []  # values printed by PrintT (raw strings)
        self.coverage = {}  # action name -> (distinct, total)
        self.out = ""
        self.wall = 0.0
        self.error = None


_STATE_RE = re.compile(r"^State (\d+): (.*)$")


def _parse_tlc(out: str, res: TLCResult):
    m = None
    for m in re.finditer(r"(\d+) states generated, (\d+) distinct states found", out):
        pass
    if m:
        res.generated, res.distinct = int(m.group(1)), int(m.group(2))
    # simulation mode statistics
    m2 = re.search(r"The number of states generated: (\d+)", out)
    if m2 and not res.generated:
        res.generated = int(m2.group(1))
        res.distinct = res.generated
    lines = out.splitlines()
    i = 0
    while i < len(lines):
        ln = lines[i]
        vm = re.match(r"^Error: Invariant (\S+) is violated", ln)
        am = re.match(r"^Error: Action property (\S+) is violated", ln) or re.match(
            r"^Error: Action property (.*) is violated", ln)
        tm = re.match(r"^Error: Temporal properties were violated", ln)
        dm = re.match(r"^Error: Deadlock reached", ln)
        pm = re.match(r"^Error: Postcondition (.*)", ln) or re.match(
            r"^Error: The postcondition (.*)", ln)
        sm = re.match(r"^Error: Assumption (.*) is false", ln)
        if vm or am or tm or dm or pm or sm:
            kind = ("invariant" if vm else "action" if am else "temporal" if tm
                    else "deadlock" if dm else "postcondition" if pm else "assume")
            name = (vm or am or pm or sm).group(1) if (vm or am or pm or sm) else kind
            trace = []
            j = i + 1
            cur = None
            while j < len(lines):
                l2 = lines[j]
                if re.match(r"^Error: ", l2) and not l2.startswith(
                        "Error: The behavior up to this point is") and not l2.startswith(
                        "Error: The following behavior"):
                    break
                if re.match(r"^\d+ states generated", l2) or l2.startswith("Finished"):
                    break
                sm2 = _STATE_RE.match(l2)
                if sm2:
                    cur = [l2]
                    trace.append(cur)
                elif cur is not None:
                    if l2.strip() == "":
                        cur = None
                    else:
                        cur.append(l2)
                j += 1
            res.violations.append({"kind": kind, "name": name,
                                   "trace": ["\n".join(s) for s in trace]})
            i = j
            continue
        i += 1
    # an invariant that could not be EVALUATED in some state (e.g. a recorded value of a shape the specification does
    # not admit): kept apart; table validation turns it into a rejected row
    res.evalfail = []
    for k, ln in enumerate(lines):
        em = re.match(r"^Error: Evaluating invariant (\S+) failed", ln)
        if em:
            reason = " ".join(x.strip() for x in lines[k + 1:k + 4])[:300]
            trace, cur = [], None
            for l2 in lines[k + 1:]:
                if re.match(r"^\d+ states generated", l2) or l2.startswith("Finished"):
                    break
                sm2 = _STATE_RE.match(l2)
                if sm2:
                    cur = [l2]
                    trace.append(cur)
                elif cur is not None:
                    if l2.strip() == "":
                        cur = None
                    else:
                        cur.append(l2)
            res.evalfail.append({"kind": "invariant", "name": em.group(1) + " (not evaluable: " + reason + ")",
                                 "trace": ["\n".join(s_) for s_ in trace]})
    # generic errors that are not property violations
    for ln in lines:
        if ln.startswith("Error: ") and not any(
            ln.startswith(p) for p in (
                "Error: Invariant", "Error: Action property", "Error: Temporal",
                "Error: Deadlock", "Error: The behavior up to", "Error: The following behavior",
                "Error: Postcondition", "Error: The postcondition", "Error: Assumption")):
            res.error = (res.error or "") + ln + "\n"
    res.ok = ("Model checking completed. No error has been found" in out
              or ("Finished in" in out and not res.violations and not res.error
                  and "Error:" not in out))
    # coverage:  <Action line 12, col 1 to line 15, col 20 of module X>: 12:345
    for cm in re.finditer(r"^<(\w+) line [^>]*>: (\d+):(\d+)", out, re.M):
        name = cm.group(1)
        d, t = int(cm.group(2)), int(cm.group(3))
        od, ot = res.coverage.get(name, (0, 0))
        res.coverage[name] = (od + d, ot + t)


class Ctx:
    """Per-run context of one check (one property, one tier)."""

    def __init__(self, pid: str, tier: str, seed: int):
        self.pid = pid
        self.tier = tier
        self.seed = seed
        self.t0 = time.time()
        self.tmp = Path(tempfile.mkdtemp(prefix=f"verif_{pid}_"))
        self.states = 0
        self.transitions = 0
        self.traces = 0
        self.samples = []
        self.violations = []  # (message, replay path)
        self.known_hits = []
        self.notes = {}
        self.models = []  # per-TLC-run summary
        self.assumptions = []
        self.extra_cov = {}
        self.exhaustive = None
        kf = VERIF / "known_findings.json"
        self.known = json.loads(kf.read_text())["findings"] if kf.exists() else []

    # ------------------------------------------------------------------ util
    def cleanup(self):
        shutil.rmtree(self.tmp, ignore_errors=True)

    def log(self, *a):
        print(f"[{self.pid} {time.time() - self.t0:6.1f}s]", *a, flush=True)

    def sample(self, s, cap=12):
        if len(self.samples) < cap:
            self.samples.append(s)

    def note(self, key, val):
        self.notes[key] = val

    def add_cov(self, key, n):
        self.extra_cov[key] = self.extra_cov.get(key, 0) + n

    # ------------------------------------------------------------------- TLC
    def tlc(self, module: str, cfg: str, *, extra: dict | None = None, env: dict | None = None,
            workers: int | None = None, simulate: str | None = None, depth: int | None = None,
            timeout: int = 3600, coverage: bool = False, cont: bool = False,
            name: str | None = None, java_opts: str = "-Xss64m", seed: int | None = None,
            deadlock: bool = False, quiet: bool = False, eval_as_violation: bool = False) -> TLCResult:
        """Run TLC on /verif/spec/<module>.tla with the given cfg text.

        `extra` maps file names to contents written next to the cfg (generated MC_* modules,
        tables).  Spec modules are found through -DTLA-Library=/verif/spec.
        """
        name = name or module
        d = Path(tempfile.mkdtemp(prefix=f"tlc_{name}_", dir=self.tmp))
        for fn, txt in (extra or {}).items():
            (d / fn).write_text(txt)
        if not (d / f"{module}.tla").exists():
            shutil.copy(SPEC / f"{module}.tla", d / f"{module}.tla")
        (d / f"{module}.cfg").write_text(cfg)
        cmd = ["java", "-XX:+UseParallelGC", f"-DTLA-Library={SPEC}"]
        cmd += java_opts.split()
        cmd += ["-cp", TLA_CP, "tlc2.TLC", "-metadir", str(d / "states"), "-noGenerateSpecTE",
                "-workers", str(workers or NCPU), "-config", f"{module}.cfg"]
        if not deadlock:
            cmd += ["-deadlock"]
        if coverage:
            cmd += ["-coverage", "1"]
        if cont:
            cmd += ["-continue"]
        if simulate is not None:
            cmd += ["-simulate", simulate]
            if depth:
                cmd += ["-depth", str(depth)]
            cmd += ["-seed", str(self.seed if seed is None else seed)]
        cmd += [f"{module}.tla"]
        e = dict(os.environ)
        e.update({k: str(v) for k, v in (env or {}).items()})
        t = time.time()
        try:
            p = subprocess.run(cmd, cwd=d, env=e, capture_output=True, text=True, timeout=timeout)
        except subprocess.TimeoutExpired:
            raise MachineryError(f"TLC timeout after {timeout}s on {name}")
        res = TLCResult()
        res.wall = time.time() - t
        res.out = p.stdout + p.stderr
        _parse_tlc(res.out, res)
        (d / "tlc.out").write_text(res.out)
        res.dir = d
        if eval_as_violation and res.evalfail:
            # the table row cannot be evaluated by its specification: a rejected row, not a failure of the machinery
            res.violations += res.evalfail
            res.error = "".join(ln + "\n" for ln in (res.error or "").splitlines()
                                if not ln.startswith("Error: Evaluating invariant")) or None
        self.states += res.distinct
        self.transitions += res.generated
        self.models.append({"model": name, "distinct": res.distinct, "generated": res.generated,
                            "wall_s": round(res.wall, 1), "violations": len(res.violations)})
        if not quiet:
            self.log(f"TLC {name}: {res.generated} generated / {res.distinct} distinct, "
                     f"{len(res.violations)} violation(s), {res.wall:.1f}s")
        if res.error or (not res.ok and not res.violations):
            keep = EVID / "machinery"
            keep.mkdir(parents=True, exist_ok=True)
            (keep / f"{self.pid}_{name}.out").write_text(res.out)
            raise MachineryError(f"TLC failed on {name}: {(res.error or res.out[-2000:])}")
        return res

    def tlaps(self, module: str, timeout: int = 600):
        """Run tlapm on /verif/spec/<module>.tla (supplementary, unbounded proofs).  Never fails the check: returns
        and records (obligations proved, obligations) or None when tlapm is unavailable / did not finish."""
        d = Path(tempfile.mkdtemp(prefix=f"tlaps_{module}_", dir=self.tmp))
        shutil.copy(SPEC / f"{module}.tla", d / f"{module}.tla")
        t = time.time()
        try:
            p = subprocess.run(["tlapm", "--cleanfp", f"{module}.tla"], cwd=d, capture_output=True, text=True,
                               timeout=timeout)
            out = p.stdout + p.stderr
        except Exception as e:  # noqa: BLE001
            self.notes[f"tlaps_{module}"] = f"not run: {type(e).__name__}"
            self.log(f"TLAPS {module}: not run ({type(e).__name__})")
            return None
        m = re.search(r"All (\d+) obligations? proved", out)
        f = re.search(r"(\d+)/(\d+) obligations? failed", out)
        if m:
            res = (int(m.group(1)), int(m.group(1)))
        elif f:
            res = (int(f.group(2)) - int(f.group(1)), int(f.group(2)))
        else:
            self.notes[f"tlaps_{module}"] = "no verdict parsed"
            self.log(f"TLAPS {module}: no verdict parsed")
            return None
        self.notes[f"tlaps_{module}"] = {"obligations": res[1], "proved": res[0], "wall_s": round(time.time() - t, 1)}
        self.log(f"TLAPS {module}: {res[0]} of {res[1]} obligations proved, {time.time() - t:.1f}s (supplementary)")
        return res

    # ------------------------------------------------------------ violations
    def replay_path(self, tag: str) -> Path:
        d = EVID / "replays" / self.pid
        d.mkdir(parents=True, exist_ok=True)
        return d / f"{tag}.json"

    def violation(self, tag: str, what: str, data):
        """Record a violation unless it matches a committed known finding."""
        for k in self.known:
            if k["property"] == self.pid and k.get("status") == "known" and _match(k, tag, data):
                if k["key"] not in [h["key"] for h in self.known_hits]:
                    self.known_hits.append(k)
                    print(f"KNOWN-FINDING: property={self.pid} {k['what']}", flush=True)
                return False
        path = self.replay_path(re.sub(r"[^A-Za-z0-9_.-]", "_", tag)[:80] + f"_{len(self.violations)}")
        path.write_text(json.dumps({"property": self.pid, "tag": tag, "what": what, "data": data},
                                   indent=1, default=str))
        self.violations.append((what, str(path)))
        if len(self.violations) <= 20:
            print(f"VIOLATION property={self.pid} replay={path}", flush=True)
            print(f"  {what[:600]}", flush=True)
        return True

    # -------------------------------------------------------------- evidence
    def finish(self) -> int:
        wall = time.time() - self.t0
        cov = {
            "states": int(self.states),
            "transitions": int(self.transitions),
            "traces_validated_against_impl": int(self.traces),
            "samples": self.samples[:12] or ["<none>"],
            "models": self.models,
        }
        if self.exhaustive is not None:
            cov["exhaustive"] = bool(self.exhaustive)
        cov.update(self.extra_cov)
        cov.update(self.notes)
        if not self.assumptions:
            try:
                chk = json.loads((VERIF / "tools" / "checks.json").read_text()).get(self.pid, {})
                self.assumptions = [chk["note"]] if chk.get("note") else []
                cov["technique"] = chk.get("technique", "")
            except Exception:  # noqa: BLE001
                pass
            self.assumptions += ["TLC 1.8 evaluates the specification correctly",
                                 "the harness projects implementation values to raw integers / bytes faithfully"]
        ev = {
            "property_id": self.pid,
            "tier": self.tier,
            "seed": int(self.seed),
            "level": "model_checking",
            "coverage": cov,
            "assumptions": self.assumptions,
            "wall_s": round(wall, 2),
            "violations": len(self.violations),
            "known_findings_hit": [k["key"] for k in self.known_hits],
        }
        EVID.mkdir(parents=True, exist_ok=True)
        (EVID / f"{self.pid}.json").write_text(json.dumps(ev, indent=1, default=str))
        self.cleanup()
        if self.violations:
            return 1
        self.log(f"held: {self.states} states, {self.transitions} transitions, "
                 f"{self.traces} traces bound to the implementation, {wall:.0f}s")
        return 0


def _match(k, tag, data) -> bool:
    """A known finding matches by its `key` appearing in the violation tag or data key."""
    key = k["key"]
    if key in tag:
        return True
    if isinstance(data, dict) and data.get("kf_key") == key:
        return True
    return False


def chunks(seq, n):
    for i in range(0, len(seq), n):
        yield seq[i:i + n]


def tla_str(s: str) -> str:
    return '"' + s.replace("\\", "\\\\").replace('"', '\\"') + '"'


def tla_val(v) -> str:
    """Python value -> TLA+ literal (ints, bools, str, list/tuple -> <<>>, dict -> record)."""
    if isinstance(v, bool):
        return "TRUE" if v else "FALSE"
    if isinstance(v, int):
        return str(v) if v >= 0 else f"(0 - {-v})"
    if isinstance(v, str):
        return tla_str(v)
    if isinstance(v, (list, tuple)):
        return "<<" + ", ".join(tla_val(x) for x in v) + ">>"
    if isinstance(v, dict):
        return "[" + ", ".join(f"{k} |-> {tla_val(x)}" for k, x in v.items()) + "]"
    if isinstance(v, (set, frozenset)):
        return "{" + ", ".join(tla_val(x) for x in sorted(v)) + "}"
    raise TypeError(type(v))
