"""./check <Cxx> [--tier quick|thorough] [--replay PATH]"""
from __future__ import annotations

import argparse
import importlib
import json
import os
import sys
import traceback

from .core import CallTimeout, Ctx, MachineryError, limited


def main(argv=None) -> int:
    ap = argparse.ArgumentParser()
    ap.add_argument("pid")
    ap.add_argument("--tier", default=os.environ.get("VERIF_TIER", "quick"),
                    choices=["quick", "thorough"])
    ap.add_argument("--replay", default=None)
    ap.add_argument("--only", default=None, help="comma-separated sub-check names (development)")
    a = ap.parse_args(argv)
    seed = int(os.environ.get("VERIF_SEED", "0") or 0)
    pid = a.pid.upper()
    if a.replay:
        data = json.load(open(a.replay))
        print(json.dumps(data, indent=1)[:4000])
        print("replay: re-running the check that produced this file")
    os.environ["VERIF_TIER_RUNNING"] = a.tier
    ctx = Ctx(pid, a.tier, seed)
    ctx.only = set(a.only.split(",")) if a.only else None
    try:
        mod = importlib.import_module(f"harness.props.{pid.lower()}")
        # overall backstop (producers that run in this process): far above any legitimate run of the tier
        limited(lambda: mod.run(ctx), float(os.environ.get("VERIF_RUN_LIMIT", 3 * 3600 if a.tier == "quick" else 16 * 3600)))
        return ctx.finish()
    except CallTimeout as e:
        # a call into the library (or a whole job of such calls) did not return within a limit far above its normal
        # duration: reported as non-termination, with the stack of the worker at the moment the limit expired
        tb = traceback.format_exc()
        ctx.violation("non-termination", f"a library call did not return: {e}", {"traceback": tb[-6000:]})
        return ctx.finish()
    except MachineryError as e:
        print(f"MACHINERY-FAILURE property={pid}: {e}", file=sys.stderr, flush=True)
        ctx.cleanup()
        return 2
    except Exception:  # noqa: BLE001
        traceback.print_exc()
        print(f"MACHINERY-FAILURE property={pid}: harness exception", file=sys.stderr, flush=True)
        ctx.cleanup()
        return 2


if __name__ == "__main__":
    sys.exit(main())
