"""./check <Cxx> [--tier quick|thorough] [--replay PATH]"""
from __future__ import annotations

import argparse
import importlib
import json
import os
import sys
import traceback

from .core import Ctx, MachineryError


def main(argv=None) -> int:
    ap = argparse.ArgumentParser()
    ap.add_argument("pid")
    ap.add_argument("--tier", default=os.environ.get("VERIF_TIER", "quick"),
                    choices=["quick", "thorough"])
    ap.add_argument("--replay", default=None)
    ap.add_argument("--only", default=None, help="comma-separated sub-check names (development)")
    a = ap.parse_args(argv)
    seed = int(os.environ.get("VERIF_SEED", "0") or 0)
    pid = a.pid.upper()
    if a.replay:
        data = json.load(open(a.replay))
        print(json.dumps(data, indent=1)[:4000])
        print("replay: re-running the check that produced this file")
    ctx = Ctx(pid, a.tier, seed)
    ctx.only = set(a.only.split(",")) if a.only else None
    try:
        mod = importlib.import_module(f"harness.props.{pid.lower()}")
        mod.run(ctx)
        return ctx.finish()
    except MachineryError as e:
        print(f"MACHINERY-FAILURE property={pid}: {e}", file=sys.stderr, flush=True)
        ctx.cleanup()
        return 2
    except Exception:  # noqa: BLE001
        traceback.print_exc()
        print(f"MACHINERY-FAILURE property={pid}: harness exception", file=sys.stderr, flush=True)
        ctx.cleanup()
        return 2


if __name__ == "__main__":
    sys.exit(main())
