"""Roots of small polynomials over Fp / Fp2 (p = 3 mod 4, Fp2 = Fp[i]/(i^2+1)) - INPUT GENERATION ONLY.

Used to find the field elements u whose simplified-SWU image is an exceptional point of the isogeny (a pole of the
rational map = a kernel point, or a zero of its x-numerator).  What the library does with such a u is judged by the
specification (SwuBig.tla), not by this module."""
from __future__ import annotations


class Fld:
    def __init__(self, p, deg):
        self.p, self.deg = p, deg
        self.q = p ** deg
        self.zero = (0,) * deg
        self.one = (1,) + (0,) * (deg - 1)

    def add(self, a, b):
        return tuple((x + y) % self.p for x, y in zip(a, b))

    def sub(self, a, b):
        return tuple((x - y) % self.p for x, y in zip(a, b))

    def neg(self, a):
        return tuple((-x) % self.p for x in a)

    def mul(self, a, b):
        p = self.p
        if self.deg == 1:
            return (a[0] * b[0] % p,)
        return ((a[0] * b[0] - a[1] * b[1]) % p, (a[0] * b[1] + a[1] * b[0]) % p)

    def inv(self, a):
        p = self.p
        if self.deg == 1:
            return (pow(a[0], p - 2, p),)
        n = pow((a[0] * a[0] + a[1] * a[1]) % p, p - 2, p)
        return (a[0] * n % p, (-a[1]) * n % p)

    def pow(self, a, e):
        r = self.one
        while e:
            if e & 1:
                r = self.mul(r, a)
            a = self.mul(a, a)
            e >>= 1
        return r

    def is_square(self, a):
        return a == self.zero or self.pow(a, (self.q - 1) // 2) == self.one

    def sqrt(self, a):
        """A square root or None (p = 3 mod 4)."""
        if a == self.zero:
            return a
        if not self.is_square(a):
            return None
        if self.deg == 1:
            return (pow(a[0], (self.p + 1) // 4, self.p),)
        from .grouptrace import f2_sqrt
        s = f2_sqrt(self.p, a)
        return s if s is not None and self.mul(s, s) == a else None

    def rand(self, rng):
        return tuple(rng.randrange(self.p) for _ in range(self.deg))


# polynomials: lists of field elements, low degree first, no trailing zeros
def _trim(F, a):
    while a and a[-1] == F.zero:
        a = a[:-1]
    return a


def pmul(F, a, b):
    if not a or not b:
        return []
    out = [F.zero] * (len(a) + len(b) - 1)
    for i, x in enumerate(a):
        if x == F.zero:
            continue
        for j, y in enumerate(b):
            out[i + j] = F.add(out[i + j], F.mul(x, y))
    return _trim(F, out)


def pmod(F, a, m):
    a = list(a)
    li = F.inv(m[-1])
    while len(a) >= len(m):
        c = F.mul(a[-1], li)
        if c != F.zero:
            off = len(a) - len(m)
            for k, y in enumerate(m):
                a[off + k] = F.sub(a[off + k], F.mul(c, y))
        a.pop()
        a = _trim(F, a) if a and a[-1] == F.zero else a
    return _trim(F, a)


def psub(F, a, b):
    n = max(len(a), len(b))
    a = list(a) + [F.zero] * (n - len(a))
    b = list(b) + [F.zero] * (n - len(b))
    return _trim(F, [F.sub(x, y) for x, y in zip(a, b)])


def pgcd(F, a, b):
    a, b = _trim(F, list(a)), _trim(F, list(b))
    while b:
        a, b = b, pmod(F, a, b)
    if a:
        li = F.inv(a[-1])
        a = [F.mul(c, li) for c in a]
    return a


def ppowmod(F, base, e, m):
    r = [F.one]
    base = pmod(F, base, m)
    while e:
        if e & 1:
            r = pmod(F, pmul(F, r, base), m)
        base = pmod(F, pmul(F, base, base), m)
        e >>= 1
    return r


def roots(F, f, rng):
    """All roots in F of the polynomial f (distinct)."""
    f = _trim(F, list(f))
    if len(f) <= 1:
        return []
    x = [F.zero, F.one]
    g = pgcd(F, psub(F, ppowmod(F, x, F.q, f), x), f)      # product of the distinct linear factors
    out = []

    def split(h):
        if len(h) <= 1:
            return
        if len(h) == 2:
            out.append(F.neg(F.mul(h[0], F.inv(h[1]))))
            return
        while True:
            a = F.rand(rng)
            t = psub(F, ppowmod(F, [a, F.one], (F.q - 1) // 2, h), [F.one])
            d = pgcd(F, t, h)
            if 1 < len(d) < len(h):
                split(d)
                q, rem = _divmod(F, h, d)
                split(q)
                return
    split(g)
    return out


def _divmod(F, a, m):
    a = list(a)
    q = [F.zero] * max(0, len(a) - len(m) + 1)
    li = F.inv(m[-1])
    while len(a) >= len(m) and a:
        c = F.mul(a[-1], li)
        off = len(a) - len(m)
        q[off] = c
        for k, y in enumerate(m):
            a[off + k] = F.sub(a[off + k], F.mul(c, y))
        a.pop()
    return _trim(F, q), _trim(F, a)


def swu_preimages(F, A, B, Z, x0):
    """All u with simplified-SWU x-coordinate x0 on y^2 = x^3 + A x + B (candidates; both branches)."""
    us = []
    v = F.mul(x0, F.neg(F.mul(A, F.inv(B))))          # x0 * (-A / B)
    two_inv = F.inv(F.add(F.one, F.one))
    cands_t = []
    # branch x1 = x0:  1 / (t^2 + t) = v - 1
    w = F.sub(v, F.one)
    if w != F.zero:
        c = F.inv(w)
        disc = F.add(F.one, F.mul(F.add(F.add(F.one, F.one), F.add(F.one, F.one)), c))       # 1 + 4 c
        s = F.sqrt(disc)
        if s is not None:
            for sg in (s, F.neg(s)):
                cands_t.append(F.mul(F.sub(sg, F.one), two_inv))
    # branch x2 = t x1 = x0:  t^2 + (1 - v) t + (1 - v) = 0
    b = F.sub(F.one, v)
    disc = F.sub(F.mul(b, b), F.mul(F.add(F.add(F.one, F.one), F.add(F.one, F.one)), b))
    s = F.sqrt(disc)
    if s is not None:
        for sg in (s, F.neg(s)):
            cands_t.append(F.mul(F.sub(sg, b), two_inv))
    zi = F.inv(Z)
    for t in cands_t:
        u2 = F.mul(t, zi)
        r = F.sqrt(u2)
        if r is not None:
            us += [r, F.neg(r)]
    return list(dict.fromkeys(us))
