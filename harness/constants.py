"""Export the library's module-level constants as BigNat limbs and let TLC compare them with
StdConstants.tla (derived from the curve parameters)."""
from __future__ import annotations

from . import tables
from .core import Ctx


def limbs(n: int):
    assert n >= 0
    out = []
    while n:
        out.append(n & 32767)
        n >>= 15
    return out


def _coeffs(x):
    return [limbs(int(c)) for c in x.coeffs]


def export_rows(which=("bls", "bn", "secp")):
    rows = []

    def add(name, v):
        rows.append({"name": name, "v": v})

    if "bls" in which:
        from py_ecc import bls12_381 as ref, optimized_bls12_381 as opt
        from py_ecc.bls import constants as bc
        from py_ecc.bls import g2_primitives as g2p
        from py_ecc.optimized_bls12_381 import constants as oc, optimized_pairing as op
        from py_ecc.bls12_381 import bls12_381_pairing as rp
        from py_ecc.fields import field_properties as _fpd
        for m in (ref, opt):
            add("bls.field_modulus", limbs(m.field_modulus))
            add("bls.curve_order", limbs(m.curve_order))
            add("bls.b", limbs(int(m.b.n)))
            add("bls.b2", _coeffs(m.b2))
            add("bls.G1.x", limbs(int(m.G1[0].n)))
            add("bls.G1.y", limbs(int(m.G1[1].n)))
            add("bls.G2.x", _coeffs(m.G2[0]))
            add("bls.G2.y", _coeffs(m.G2[1]))
        add("bls.curve_order", limbs(g2p.curve_order))
        add("bls.field_modulus", limbs(_fpd["bls12_381"]["field_modulus"]))
        p = _fpd["bls12_381"]["field_modulus"]
        add("bls.FQ2_mod", [limbs(c % p) for c in _fpd["bls12_381"]["fq2_modulus_coeffs"]])
        add("bls.FQ12_mod", [limbs(c % p) for c in _fpd["bls12_381"]["fq12_modulus_coeffs"]])
        add("bls.H_EFF_G1", limbs(oc.H_EFF_G1))
        add("bls.H_EFF_G2", limbs(oc.H_EFF_G2))
        add("bls.G2_COFACTOR", limbs(bc.G2_COFACTOR))
        add("bls.ate_loop_count", limbs(op.ate_loop_count))
        add("bls.ate_loop_count", limbs(rp.ate_loop_count))
    if "bn" in which:
        from py_ecc import bn128 as ref, optimized_bn128 as opt
        from py_ecc.bn128 import bn128_pairing as rp
        from py_ecc.optimized_bn128 import optimized_pairing as op
        from py_ecc.fields import field_properties as _fpd
        for m in (ref, opt):
            add("bn.field_modulus", limbs(m.field_modulus))
            add("bn.curve_order", limbs(m.curve_order))
            add("bn.b", limbs(int(m.b.n)))
            add("bn.b2", _coeffs(m.b2))
            add("bn.G1", [limbs(int(m.G1[0].n)), limbs(int(m.G1[1].n))])
            add("bn.G2.x", _coeffs(m.G2[0]))
            add("bn.G2.y", _coeffs(m.G2[1]))
            add("bn.G2.oncurve", _coeffs(m.b2))
        p = _fpd["bn128"]["field_modulus"]
        add("bn.field_modulus", limbs(p))
        add("bn.FQ2_mod", [limbs(c % p) for c in _fpd["bn128"]["fq2_modulus_coeffs"]])
        add("bn.FQ12_mod", [limbs(c % p) for c in _fpd["bn128"]["fq12_modulus_coeffs"]])
        add("bn.ate_loop_count", limbs(op.ate_loop_count))
        add("bn.ate_loop_count", limbs(rp.ate_loop_count))
    if "secp" in which:
        from py_ecc.secp256k1 import secp256k1 as s
        add("secp.P", limbs(s.P))
        add("secp.N", limbs(s.N))
        add("secp.A", limbs(s.A))
        add("secp.B", limbs(s.B))
        add("secp.G", [limbs(s.G[0]), limbs(s.G[1])])
        add("secp.G", [limbs(s.Gx), limbs(s.Gy)])
    return rows


def check_constants(ctx: Ctx, which=("bls", "bn", "secp")):
    rows = export_rows(which)
    names = sorted(set(r["name"] for r in rows))
    ctx.note("constants_compared", names)
    ctx.sample({"constant": rows[0]["name"], "limbs": rows[0]["v"][:6]})
    invs = ["SelfOK", "RowsOK"] + (["CoverOK"] if set(which) == {"bls", "bn", "secp"} else [])
    tables.validate(ctx, "ConstTable", rows, invariants=invs, name="ConstTable_" + "_".join(which),
                    tag=lambda r: f"const:{r['name']}", result_keys=("v",), workers=1,
                    describe=lambda r: f"constant {r['name']} = {r['v']}")
