"""ECDSA layer (C06, C19): toy tables from a private copy of secp256k1, exhaustive check of
Ecdsa.tla, and full-size RFC 6979 call-structure traces."""
from __future__ import annotations

import hashlib
import hmac as _hmac
import random
from concurrent.futures import ThreadPoolExecutor
from multiprocessing import Pool

from . import curves, tables, toy
from .core import Ctx, Guarded, MachineryError, NCPU

INST = ["secp43", "secp67", "secp79"]
VS = [0, 1, 26, 27, 28, 29, 35, 36]


def instance(cname):
    m = curves.secp_module(cname)
    return {"p": m.P, "b": m.B, "n": m.N, "gx": m.Gx, "gy": m.Gy}


HLENS = [2, 32, 33, 64, 31, 48, 3, 40]


def hbytes(z, sel):
    """The hash value z as a byte string whose length varies (0..64-byte hashes are in the property)."""
    return z.to_bytes(HLENS[sel % len(HLENS)], "big")


def _exc(e):
    """ValueError is the specified refusal (encoded as the empty tuple); anything else is an exception row."""
    return [] if type(e) is ValueError else f"EXC:{type(e).__name__}:{e}"[:100]


def _sign_job(job):
    cname, ei, ds, zs, ks, withrec = job
    m = curves.secp_module(cname)
    cur = [0]
    m.deterministic_generate_k = lambda h, p: cur[0]
    rows = []
    for d in ds:
        priv = d.to_bytes(32, "big")
        for z in zs:
            h = hbytes(z, d + z)
            for k in ks:
                cur[0] = k
                row = {"op": "signrec" if withrec else "sign", "e": ei, "z": z, "d": d, "k": k, "hl": len(h)}
                try:
                    v, r, s = m.ecdsa_raw_sign(h, priv)
                    row["r"] = [v, r, s]
                except Exception as e:  # noqa: BLE001
                    row["r"] = _exc(e)
                    row["op"] = "sign"
                    rows.append(row)
                    continue
                if withrec:
                    try:
                        row["q"] = list(m.ecdsa_raw_recover(h, (v, r, s)))
                    except Exception as e:  # noqa: BLE001
                        row["q"] = _exc(e)
                    try:
                        row["o"] = list(m.ecdsa_raw_recover(h, (55 - v, r, s)))
                    except Exception as e:  # noqa: BLE001
                        row["o"] = _exc(e)
                rows.append(row)
    return rows


def _rec_job(job):
    cname, ei, vs, rs, ss, zs = job
    m = curves.secp_module(cname)
    rows = []
    for r in rs:            # v innermost: the same (r, s, z) is recovered under every v in one process
        for s in ss:
            for z in zs:
                for v in vs:
                    try:
                        q = list(m.ecdsa_raw_recover(hbytes(z, r + s + z), (v, r, s)))
                    except Exception as e:  # noqa: BLE001
                        q = _exc(e)
                    rows.append({"op": "recover", "e": ei, "z": z, "v": v, "r": r, "s": s, "q": q})
    return rows


def toy_tables(ctx: Ctx, what=("sign", "recover")):
    quick = ctx.tier == "quick"
    rng = random.Random(ctx.seed + 23)
    insts = [instance(c) for c in INST]
    jobs_s, jobs_r = [], []
    for ei, cname in enumerate(INST, start=1):
        E = insts[ei - 1]
        n, p = E["n"], E["p"]
        if cname == "secp43":
            ds = list(range(1, n))
            zs = list(range(0, n + 4)) + [2 * n, 2 * n + 5, 3 * n, 3 * n + 7, 65535]
            ks = list(range(0, 2 * n + 1))
            rs = list(range(0, p))
            ss = list(range(0, 2 * n + 2))
            zr = [0, 1, 5, n - 1, n, n + 1, 2 * n + 3] if quick else list(range(0, 2 * n + 1))
        else:
            if quick and cname == "secp79":
                continue
            ds = [1, 2, n - 2, n - 1] + rng.sample(range(3, n - 2), 4 if quick else 20)
            zs = [0, 1, n - 1, n, n + 1, 2 * n + 1] + rng.sample(range(2, 3 * n), 3 if quick else 20)
            ks = list(range(0, 2 * n + 1)) if not quick else [0, 1, 2, n - 1, n, n + 1, 2 * n] + rng.sample(range(3, n - 1), 12)
            rs = list(range(0, p))
            ss = [0, 1, 2, (n - 1) // 2, (n + 1) // 2, n - 1, n, n + 1, 2 * n, 2 * n + 1] + \
                rng.sample(range(3, n - 1), 2 if quick else 10)
            zr = [0, 1, n - 1, n, n + 1] + rng.sample(range(2, 2 * n), 1 if quick else 6)
        if "sign" in what:
            for d in ds:
                jobs_s.append((cname, ei, [d], zs, ks, True))
        if "recover" in what:
            for c in range(0, len(rs), 4):
                jobs_r.append((cname, ei, VS, rs[c:c + 4], ss, zr))
    with Pool(NCPU) as pool:
        rows = [r for part in pool.map(Guarded(_sign_job), jobs_s, chunksize=1) for r in part]
        rows += [r for part in pool.map(Guarded(_rec_job), jobs_r, chunksize=1) for r in part]
    if "sign" in what:
        for ei, cname in enumerate(INST, start=1):
            m = curves.secp_module(cname)
            for d in list(range(0, 3 * m.N + 2)) + [2 ** 255 + 19, 2 ** 256 - 1]:
                if d >= 2 ** 31:
                    continue
                try:
                    q = list(m.privtopub(d.to_bytes(32, "big")))
                except Exception as e:  # noqa: BLE001
                    q = _exc(e)
                rows.append({"op": "pub", "e": ei, "d": d, "q": q})
    ctx.log(f"ecdsa toy tables: {len(rows)} rows from the private secp256k1 copy")
    for r in rows[:: max(1, len(rows) // 5)][:5]:
        ctx.sample(r)
    ctx.note("instances", {c: instance(c) for c in INST})
    ctx.add_cov("rows_sign", sum(1 for r in rows if r["op"] in ("sign", "signrec")))
    ctx.add_cov("rows_recover", sum(1 for r in rows if r["op"] == "recover"))
    ctx.add_cov("rows_recover_accepted", sum(1 for r in rows if r["op"] == "recover" and isinstance(r["q"], list)))
    tables.validate(ctx, "EcdsaTable", rows, invariants=["InstancesOK", "RowsOK"],
                    files={"INSTANCES": insts}, name="EcdsaTable_" + "_".join(what),
                    tag=lambda r: f"{INST[r['e'] - 1]}:{r['op']}", result_keys=("r", "q", "o"),
                    describe=lambda r: f"{INST[r['e'] - 1]} {r}")


MC_CFG = ("SPECIFICATION Spec\nINVARIANT PremisesInv\nINVARIANT RegularCount\n")


def model_check(ctx: Ctx, which):
    """(A) Ecdsa.tla: the transcription of the code meets the mathematics on every input of a toy instance."""
    quick = ctx.tier == "quick"
    todo = [("secp43", None)] if quick else [("secp43", None), ("secp67", 40)]
    for cname, cap in todo:
        E = instance(cname)
        n = E["n"]
        env = {"EP": E["p"], "EB": E["b"], "EN": n, "EGX": E["gx"], "EGY": E["gy"],
               "ZMAX": (n + 3) if quick else (2 * n + 1 if cap is None else cap),
               "KMAX": 2 * n if cap is None else n + 2, "SMAX": 2 * n + 1 if cap is None else n + 2}
        cfg = MC_CFG + "".join(f"INVARIANT {x}\n" for x in which)
        res = ctx.tlc("MC_Ecdsa", cfg, env=env, name=f"MC_Ecdsa_{cname}_{'_'.join(which)}", timeout=3400)
        for v in res.violations:
            ctx.violation(f"MC_Ecdsa:{cname}:{v['name']}",
                          f"Ecdsa.tla: {v['name']} fails on {cname} (the transcription of the code does not meet "
                          f"the mathematical definition)", {"trace": v["trace"][-1:]})
        reg = [ln for ln in res.out.splitlines() if ln.startswith('<<"regular"')]
        ctx.note(f"regular_{cname}", reg[:1])


# ------------------------------------------------------------------------- full size: RFC 6979 call structure
class _HmacRecorder:
    """Stands in for the `hmac` module global of the private secp256k1 copy; real HMAC, every digest recorded
    with the key and the COMPLETE message it covers (new / update / copy are supported, so an implementation
    may feed the message in pieces)."""

    def __init__(self):
        self.calls = []

    def new(self, key, msg=None, digestmod=None):
        rec = self

        class _H:
            def __init__(self_inner, buf):
                self_inner.buf = bytes(buf)

            def update(self_inner, data):
                self_inner.buf += bytes(data)

            def copy(self_inner):
                return _H(self_inner.buf)

            def digest(self_inner):
                out = _hmac.new(bytes(key), self_inner.buf, digestmod).digest()
                name = getattr(digestmod, "__name__", str(digestmod)).replace("openssl_", "")
                rec.calls.append({"key": list(key), "msg": list(self_inner.buf), "out": list(out), "alg": name})
                return out
        return _H(msg or b"")


def rfc6979_rows(ctx: Ctx):
    rng = random.Random(ctx.seed + 31)
    m = toy.private_module("py_ecc/secp256k1/secp256k1.py", "py_ecc.secp256k1")
    N = m.N
    rec = _HmacRecorder()
    m.hmac = rec
    keys = [1, 2, 255, 256, 2 ** 128, 2 ** 248 - 1, 2 ** 248, N - 2, N - 1] + \
        [rng.getrandbits(256) % (N - 1) + 1 for _ in range(4 if ctx.tier == "quick" else 40)] + \
        [rng.getrandbits(bits) | 1 for bits in (9, 63, 200, 247)]
    hashes = [b"\x00" * 32, b"\xff" * 32, (N - 1).to_bytes(32, "big"), N.to_bytes(32, "big"),
              (N + 1).to_bytes(32, "big"), b"", b"\x01", b"\x00" * 31 + b"\x01", bytes(range(33)),
              bytes(range(64)), b"\xff" * 64, bytes(48)]
    hashes += [rng.randbytes(32) for _ in range(4 if ctx.tier == "quick" else 30)]
    hashes += [rng.randbytes(rng.randrange(0, 65)) for _ in range(3 if ctx.tier == "quick" else 20)]
    rows, sigs = [], []
    for d in keys:
        priv = d.to_bytes(32, "big")
        for h in hashes:
            rec.calls = []
            try:
                k = m.deterministic_generate_k(h, priv)
                calls = rec.calls
                rec.calls = []
                k2 = m.deterministic_generate_k(h, priv)
                rows.append({"h": list(h), "x": list(priv), "calls": calls,
                             "k": list(k.to_bytes(32, "big")) if 0 <= k < 2 ** 256 else [],
                             "det": 1 if k == k2 else 0})
                sigs.append((d, h, k))
            except Exception as e:  # noqa: BLE001
                rows.append({"h": list(h), "x": list(priv), "calls": [], "k": [], "det": 0,
                             "exc": f"EXC:{type(e).__name__}:{e}"[:120]})
        # the nonce computation as ecdsa_raw_sign itself performs it (same key and hash bytes, same five calls)
        for h in hashes[:3] + hashes[-3:]:
            rec.calls = []
            try:
                m.ecdsa_raw_sign(h, priv)
                calls = rec.calls
                rec.calls = []
                rows.append({"h": list(h), "x": list(priv), "calls": calls,
                             "k": calls[4]["out"] if len(calls) == 5 else [], "det": 1, "via": "ecdsa_raw_sign"})
            except Exception as e:  # noqa: BLE001
                rows.append({"h": list(h), "x": list(priv), "calls": [], "k": [], "det": 0, "via": "ecdsa_raw_sign",
                             "exc": f"EXC:{type(e).__name__}:{e}"[:120]})
    return m, rows, sigs


def rfc6979(ctx: Ctx):
    m, rows, sigs = rfc6979_rows(ctx)
    ctx.sample({"rfc6979_row": {"h": bytes(rows[0]["h"]).hex(), "x": bytes(rows[0]["x"]).hex(),
                                "k": bytes(rows[0]["k"]).hex(), "hmac_calls": len(rows[0]["calls"])}})
    tables.validate(ctx, "Rfc6979Trace", rows, invariants=["RowsOK"], name="Rfc6979Trace",
                    tag=lambda r: "rfc6979", describe=lambda r: f"h={bytes(r['h']).hex()} x={bytes(r['x']).hex()} "
                    f"k={bytes(r['k']).hex()} calls={len(r['calls'])}")
    return m, sigs


def big_rows(ctx: Ctx):
    """ecdsa_raw_sign / recover / privtopub of the real module at full size, with the recorded HMAC calls."""
    from .constants import limbs
    rng = random.Random(ctx.seed + 37)
    m = toy.private_module("py_ecc/secp256k1/secp256k1.py", "py_ecc.secp256k1")
    N = m.N
    rec = _HmacRecorder()
    m.hmac = rec
    quick = ctx.tier == "quick"
    keys = [1, 2, N - 2, N - 1, 2 ** 255, rng.getrandbits(64) | 1] + \
        [rng.randrange(1, N) for _ in range(3 if quick else 30)]
    hashes = [b"\x00" * 32, b"\xff" * 32, (N - 1).to_bytes(32, "big"), N.to_bytes(32, "big"), (N + 1).to_bytes(32, "big"),
              b"", b"\x07", bytes(range(33)), b"\xff" * 64, rng.randbytes(32), rng.randbytes(32), rng.randbytes(47)]
    ids = {}

    def pid(pt):
        pt = (int(pt[0]), int(pt[1]))
        if pt not in ids:
            ids[pt] = len(ids) + 1
        return ids[pt]
    rows = []
    for d in keys:
        priv = d.to_bytes(32, "big")
        for h in (hashes if d in keys[:3] else rng.sample(hashes, 4)):
            row = {"h": list(h), "dkey": list(priv)}
            try:
                rec.calls = []
                v, r, s = m.ecdsa_raw_sign(h, priv)
                row["calls"] = list(rec.calls)
                k = m.bytes_to_int(bytes(row["calls"][4]["out"])) if len(row["calls"]) >= 5 else 0
                R = m.multiply(m.G, k)
                row.update({"k": limbs(k), "rx": limbs(R[0]), "ry": limbs(R[1]), "v": v, "r": limbs(r), "s": limbs(s),
                            "pub": pid(m.privtopub(priv))})
                try:
                    row["rec"] = pid(m.ecdsa_raw_recover(h, (v, r, s)))
                except ValueError:
                    row["rec"] = 0
                try:
                    row["oth"] = pid(m.ecdsa_raw_recover(h, (55 - v, r, s)))
                except ValueError:
                    row["oth"] = 0
                if len(row["calls"]) != 5:
                    row["exc"] = f"BADVALUE:{len(row['calls'])} HMAC calls"
                    row["calls"] = (row["calls"] + [{"key": [], "msg": [], "out": [], "alg": ""}] * 5)[:5]
            except Exception as e:  # noqa: BLE001
                row["exc"] = f"EXC:{type(e).__name__}:{e}"[:120]
                row.update({"calls": [{"key": [], "msg": [], "out": [], "alg": ""}] * 5, "k": [], "rx": [], "ry": [], "v": 0,
                            "r": [], "s": [], "pub": 0, "rec": 0, "oth": 0})
            rows.append(row)
    return rows


def big(ctx: Ctx):
    rows = big_rows(ctx)
    ctx.log(f"ecdsa full size: {len(rows)} sign / recover round trips of the real module")
    ctx.add_cov("full_size_signatures", len(rows))
    tables.validate(ctx, "EcdsaBig", rows, invariants=["RowsOK"], result_keys=(), tag=lambda r: "ecdsabig",
                    describe=lambda r: f"h={bytes(r['h']).hex()} d={bytes(r['dkey']).hex()} v={r['v']} "
                                       f"rec={r['rec']} oth={r['oth']} pub={r['pub']}")


def recover_big_rows(ctx: Ctx):
    """ecdsa_raw_recover of the real module on the boundary grid of the property, with witnesses and the
    defining equation evaluated on concrete points."""
    from .constants import limbs
    from py_ecc.secp256k1 import secp256k1 as m
    rng = random.Random(ctx.seed + 47)
    quick = ctx.tier == "quick"
    P, N = m.P, m.N
    ids = {}

    def pid(pt):
        pt = (int(pt[0]), int(pt[1]))
        if pt not in ids:
            ids[pt] = len(ids) + 1
        return ids[pt]

    def onx():
        while True:
            x = rng.randrange(1, P)
            g = (x ** 3 + 7) % P
            if pow(g, (P - 1) // 2, P) == 1:
                return x

    def offx():
        while True:
            x = rng.randrange(1, P)
            g = (x ** 3 + 7) % P
            if pow(g, (P - 1) // 2, P) == P - 1:
                return x
    rs = [0, 1, 2, N - 1, N, N + 1, P - 1, onx(), onx(), offx(), offx()] + [rng.randrange(P) for _ in range(2 if quick else 10)]
    ss = [0, 1, (N - 1) // 2, (N + 1) // 2, N - 1, N, N + 1, 2 * N, rng.randrange(1, N), rng.getrandbits(300)]
    hs = [b"\x00" * 32, b"\xff" * 32, N.to_bytes(32, "big"), rng.randbytes(32), b"", rng.randbytes(64)]
    vs = [0, 1, 26, 27, 28, 29, 35, 36]
    combos = [(v, r, s, h) for v in vs for r in rs for s in ss for h in hs]
    rng.shuffle(combos)
    keep = [c for c in combos if c[0] in (27, 28)][:120 if quick else 900] + [c for c in combos if c[0] not in (27, 28)][:30 if quick else 200]
    # real signatures (also high-s variants)
    for _ in range(6 if quick else 40):
        d = rng.randrange(1, N)
        h = rng.randbytes(32)
        v, r, s = m.ecdsa_raw_sign(h, d.to_bytes(32, "big"))
        keep += [(v, r, s, h), (55 - v, r, s, h), (v, r, N - s, h), (55 - v, r, N - s, h)]
    rows = []
    for (v, r, s, h) in keep:
        g = (r ** 3 + 7) % P
        w = pow(g, (P + 1) // 4, P)
        sq = 1 if w * w % P == g else 0
        if not sq:
            w = pow((-g) % P, (P + 1) // 4, P)
        row = {"h": list(h), "v": v, "r": limbs(r), "s": limbs(s), "w": limbs(w), "sq": sq, "y": [], "res": 0,
               "lhs": 0, "rhs": 0, "rn": [], "sn": [], "zn": []}
        try:
            try:
                Q = m.ecdsa_raw_recover(h, (v, r, s))
                row["res"] = 1
            except ValueError:
                Q = None
            if Q is not None and sq and v in (27, 28):
                y = w if (w % 2 == (0 if v == 27 else 1)) else P - w
                z = m.bytes_to_int(h)
                rn, sn, zn = r % N, s % N, (N - z % N) % N
                row.update({"y": limbs(y), "rn": limbs(rn), "sn": limbs(sn), "zn": limbs(zn),
                            "lhs": pid(m.multiply(Q, rn)),
                            "rhs": pid(m.add(m.multiply((r, y), sn), m.multiply(m.G, zn)))})
        except Exception as e:  # noqa: BLE001
            row["exc"] = f"EXC:{type(e).__name__}:{e}"[:120]
        rows.append(row)
    return rows


def recover_big(ctx: Ctx):
    rows = recover_big_rows(ctx)
    ctx.log(f"recover full size: {len(rows)} calls of ecdsa_raw_recover ({sum(r['res'] for r in rows)} returned a point)")
    ctx.add_cov("full_size_recover_rows", len(rows))
    ctx.add_cov("full_size_recover_accepted", sum(r["res"] for r in rows))
    tables.validate(ctx, "RecoverBig", rows, invariants=["RowsOK"], result_keys=(), tag=lambda r: "recoverbig",
                    describe=lambda r: f"h={bytes(r['h']).hex()[:40]} v={r['v']} r={r['r'][:3]}.. s={r['s'][:3]}.. res={r['res']} "
                                       f"lhs={r['lhs']} rhs={r['rhs']} sq={r['sq']}")
