"""Step-level trace validation of the polynomial extended-Euclid loop of FQP.inv (growth of C08 / C14):
(A) MC_PolyEuclid explores the step machine of PolyEuclid.tla on every element of small fields;
(C) loop states of the real methods (reference and optimized family) recorded with sys.settrace are validated
    against it by PolyEuclidTrace.tla."""
from __future__ import annotations

import inspect
import random
import sys

from . import fields, tables, toy
from .core import Ctx

MC_FIELDS_QUICK = ["GF3^2", "GF7^2", "GF5^2a", "GF5^2b", "GF11^2", "GF2^3", "GF3^3", "GF2^4", "GF5^3", "GF3^4",
                   "GF2^6", "GF7^3", "GF2^12s"]
MC_FIELDS_THOROUGH = MC_FIELDS_QUICK + ["GF19^2", "GF2^12d"]


class NonTermination(Exception):
    pass


def _res(v, p):
    try:
        return int(v) % p
    except Exception:  # noqa: BLE001
        return -1


def record(cls, d, p, x):
    """Run x.inv() and return (result, states): locals lm, hm, low, high, r at every evaluation of the loop
    condition `while deg(low)`.  None when the method no longer has that shape."""
    fn = cls.inv
    code = fn.__code__
    try:
        src, first = inspect.getsourcelines(fn)
    except OSError:
        return None
    wl = [first + k for k, ln in enumerate(src) if ln.strip().startswith("while deg(low)")]
    if len(wl) != 1:
        return None
    wline = wl[0]
    states = []

    def tracer(frame, event, arg):
        if frame.f_code is not code:
            return None
        if event == "line" and frame.f_lineno == wline:
            if len(states) > 4 * d + 4:       # Measure <= 4 d + 1 bounds the number of iterations
                raise NonTermination(f"more than {4 * d + 4} iterations of the inversion loop")
            loc = frame.f_locals
            for k in ("lm", "hm", "low", "high"):
                if any(isinstance(c, int) and c.bit_length() > 4096 for c in loc.get(k, ())):
                    raise NonTermination("coefficients of the inversion loop grow without bound")
            if not all(k in loc for k in ("lm", "hm", "low", "high")):
                states.append(None)
                return tracer
            st = {}
            for k in ("lm", "hm", "low", "high"):
                v = list(loc[k])
                st[k] = [_res(c, p) for c in v] if len(v) == d + 1 else None
            r = loc.get("r")
            if r is None:
                st["r"] = [0] * (d + 1)
            else:
                r = [_res(c, p) for c in r]
                st["r"] = (r + [0] * (d + 1))[: d + 1] if all(c == 0 for c in r[d + 1:]) else None
            states.append(None if any(v is None or -1 in v for v in st.values()) else st)
        return tracer
    old = sys.gettrace()
    sys.settrace(tracer)
    try:
        res = fn(x)
    finally:
        sys.settrace(old)
    if not states or any(s is None for s in states):
        return None
    return res, states


def poly_euclid_checks(ctx: Ctx, families=("ref", "opt"), model_check=True):
    cat = [f for f in fields.CATALOGUE if f["d"] >= 2 and (ctx.tier == "thorough" or f.get("tier") != "thorough")]
    names = MC_FIELDS_QUICK if ctx.tier == "quick" else MC_FIELDS_THOROUGH
    mc_fields = [fields.spec_field(f) for f in fields.CATALOGUE if f["name"] in names]
    d = ctx.tmp / "polyeuclid"
    d.mkdir(exist_ok=True)
    tables.write_ndjson(d / "mcfields.ndjson", mc_fields)
    if model_check:
        res = ctx.tlc("MC_PolyEuclid",
                      "SPECIFICATION Spec\nINVARIANT LoopInv\nINVARIANT NoTruncation\nINVARIANT ResultOK\n"
                      "PROPERTY Decreases\nPROPERTY Terminates\n",
                      env={"FIELDS": str(d / "mcfields.ndjson")}, name="MC_PolyEuclid", timeout=3600)
        for v in res.violations:
            ctx.violation(f"MC_PolyEuclid:{v['name']}", f"PolyEuclid.tla: {v['name']} fails",
                          {"trace": v["trace"][-2:]})
        ctx.add_cov("polyeuclid_mc_elements", sum(f["p"] ** f["d"] for f in mc_fields))
    rng = random.Random(ctx.seed + 911)
    rows, skipped = [], set()
    for fi, f in enumerate(cat, 1):
        p, dg = f["p"], f["d"]
        n = 4100 if ctx.tier == "thorough" else 400
        if dg == 12 and fields.size(f) > n:
            n = 60 if ctx.tier == "quick" else 400
        for fam in families:
            cls = toy.field_classes(p, dg, f["mc"], fam)
            try:
                if record(cls, dg, p, toy.mk(cls, dg, [1] * dg)) is None:
                    skipped.add(fam)
                    continue
            except Exception:  # noqa: BLE001 -- recorded as a row below
                pass
            for x in fields.special_elems(f, rng, n):
                base = {"f": fi, "fam": fam, "x": list(x)}
                try:
                    out = record(cls, dg, p, toy.mk(cls, dg, x))
                    if out is None:
                        continue
                    r_, st = out
                    pr = toy.proj(r_, dg)
                    if any(not isinstance(c, int) for c in pr):
                        rows.append({**base, "states": [], "res": [0] * dg, "exc": f"BADVALUE:{pr}"[:100]})
                    else:
                        rows.append({**base, "states": st, "res": pr})
                except RecursionError:
                    rows.append({**base, "states": [], "res": [0] * dg, "exc": "EXC:RecursionError"})
                except Exception as e:  # noqa: BLE001
                    rows.append({**base, "states": [], "res": [0] * dg, "exc": f"EXC:{type(e).__name__}:{e}"[:100]})
    ctx.note("polyeuclid_families_skipped", sorted(skipped))
    if not rows:
        ctx.log("poly-euclid traces: FQP.inv no longer has the recorded loop shape; step-level validation skipped")
        return
    nst = sum(len(r["states"]) for r in rows)
    ctx.log(f"poly-euclid traces: {len(rows)} recorded runs ({nst} loop states) of FQP.inv "
            f"({[f for f in families if f not in skipped]}) over {len(cat)} fields")
    ctx.add_cov("polyeuclid_loop_states", nst)
    flds = [fields.spec_field(f) for f in cat]
    tables.validate(ctx, "PolyEuclidTrace", rows, invariants=["RowsOK"], spec="TSpec", result_keys=(),
                    files={"FIELDS": flds},
                    tag=lambda r: f"polyeuclid:{cat[r['f'] - 1]['name']}:{r['fam']}",
                    describe=lambda r: f"{cat[r['f'] - 1]['name']} {str(r)[:600]}")
    # conformance of the code's division with the modelled one (reported, never a violation)
    dd = ctx.tmp / "tbl_PolyEuclidTrace"
    good = [r for r in rows if not r.get("exc")]
    tables.write_ndjson(dd / "model.ndjson", good)
    res = ctx.tlc("PolyEuclidTrace", "SPECIFICATION TSpec\nINVARIANT ModelOK\n", cont=True, name="PolyEuclidModel",
                  env={"TABLE": str(dd / "model.ndjson"), "FIELDS": str(dd / "FIELDS.ndjson")}, timeout=3600)
    ctx.note("polyeuclid_division_is_modelled_division", not res.violations)
    if res.violations:
        ctx.log(f"poly-euclid: {len(res.violations)} recorded quotient(s) differ from PolyEuclid!DivCode - the "
                "exhaustive model results no longer describe the code's division (not a violation)")
