"""Toy instantiation of py_ecc's REAL code: field subclasses with small parameters and
private copies of modules whose module-level constants are replaced.

Nothing here re-implements py_ecc; it only parametrises it.
"""
from __future__ import annotations

import importlib
import importlib.util
import sys
from pathlib import Path

from .core import REPO

sys.path.insert(0, str(REPO))

_cache = {}
PARENTS = {}      # (p, d, mc) -> prime of the parent class (set from the field catalogue)


def field_classes(p: int, d: int, mc, family: str):
    """Return the py_ecc class for GF(p)[w]/(w^d + sum mc[i] w^i), family 'ref' or 'opt'.

    d == 1 gives an FQ subclass; d == 2 / 12 use FQ2 / FQ12; other degrees subclass FQP.
    """
    key = (p, d, tuple(mc), family)
    if key in _cache:
        return _cache[key]
    par = PARENTS.get((p, d, tuple(mc)))
    if par:
        # the way the library defines its own fields: a subclass that only overrides field_modulus (or only the modulus
        # coefficients) of a class that has already been instantiated and used
        ppar, pmc = (par, mc) if isinstance(par, int) else (par[0], tuple(par[1]))
        base = field_classes(ppar, d, pmc, family)
        x = mk(base, d, [1] * d)
        _ = x * x + x
        attrs = {"field_modulus": p}
        if tuple(pmc) != tuple(mc):
            attrs = {("FQ2_MODULUS_COEFFS" if d == 2 else "FQ12_MODULUS_COEFFS"): tuple(mc)}
        cls = type(f"T{family}Sub{d}_{p}", (base,), attrs)
        _cache[key] = cls
        return cls
    if family == "ref":
        from py_ecc.fields import field_elements as fe
    else:
        from py_ecc.fields import optimized_field_elements as fe
    mc = tuple(mc)
    if d == 1:
        cls = type(f"T{family}FQ_{p}", (fe.FQ,), {"field_modulus": p})
    elif d == 2:
        cls = type(f"T{family}FQ2_{p}", (fe.FQ2,), {"field_modulus": p, "FQ2_MODULUS_COEFFS": mc})
    elif d == 12:
        cls = type(f"T{family}FQ12_{p}", (fe.FQ12,), {"field_modulus": p, "FQ12_MODULUS_COEFFS": mc})
    else:
        def __init__(self, coeffs, _mc=mc, _fe=fe, _fam=family):
            if _fam == "opt":
                self.mc_tuples = [(i, c) for i, c in enumerate(_mc) if c]
            _fe.FQP.__init__(self, coeffs, _mc)
        cls = type(f"T{family}FQP{d}_{p}", (fe.FQP,),
                   {"field_modulus": p, "degree": d, "__init__": __init__})
    _cache[key] = cls
    return cls


def mk(cls, d, coeffs):
    return cls(coeffs[0]) if d == 1 else cls(list(coeffs))


def proj(x, d):
    """Abstraction function: raw stored coefficients as Python ints (no normalisation)."""
    if d == 1:
        n = x.n
        return [n if isinstance(n, int) else repr(n)]
    out = []
    for c in x.coeffs:
        if isinstance(c, int):
            out.append(c)
        elif hasattr(c, "n") and isinstance(c.n, int):
            out.append(c.n)
        else:
            out.append(repr(c))
    return out


_priv_n = 0


def private_module(relpath: str, package: str, overrides: dict | None = None, pre_exec=None):
    """Load a PRIVATE copy of a py_ecc module from /repo's working tree.

    The copy executes the real source with the real package context (relative imports
    resolve against the real package) and is not registered under the real name, so
    overwriting its globals does not disturb the library.
    """
    global _priv_n
    _priv_n += 1
    path = REPO / relpath
    name = f"{package}._verif_private_{_priv_n}_{path.stem}"
    spec = importlib.util.spec_from_file_location(name, path)
    m = importlib.util.module_from_spec(spec)
    m.__package__ = package
    sys.modules[name] = m
    if pre_exec:
        pre_exec(m)
    spec.loader.exec_module(m)
    for k, v in (overrides or {}).items():
        setattr(m, k, v)
    return m


def elems(p, d):
    """All coefficient tuples of GF(p^d), low degree first."""
    import itertools
    return [list(t[::-1]) for t in itertools.product(range(p), repeat=d)]
