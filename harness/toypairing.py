"""Toy BN pairing (u = 5): the library's bn128 / optimized_bn128 pairing code as private module copies with toy
constants, against the pairing TLC computes itself (ToyPairing.tla)."""
from __future__ import annotations

import random

from . import tables, toy
from .core import Ctx

TP, TR, TB, TT = 1747, 241, 2, 60          # p, r, b, T = t - 1 (found by search over primes p = 3 mod 8, p = 1 mod 3)
MC12 = (2, 0, 0, 0, 0, 0, -2, 0, 0, 0, 0, 0)


def _f2mul(a, b):
    return ((a[0] * b[0] - a[1] * b[1]) % TP, (a[0] * b[1] + a[1] * b[0]) % TP)


def find_params():
    """Generators of the order-r subgroups of E(Fp) and of the M-type twist E'(Fp2) (deterministic search)."""
    from .grouptrace import f2_sqrt
    from py_ecc.bls12_381 import bls12_381_curve as bc
    FQ = toy.field_classes(TP, 1, (0,), "ref")
    FQ2 = toy.field_classes(TP, 2, (1, 0), "ref")
    n1 = 1
    for x in range(TP):
        rhs = (x * x * x + TB) % TP
        n1 += 1 if rhs == 0 else (2 if pow(rhs, (TP - 1) // 2, TP) == 1 else 0)
    assert n1 % TR == 0, n1
    g1 = None
    for x in range(1, TP):
        rhs = (x * x * x + TB) % TP
        y = pow(rhs, (TP + 1) // 4, TP)
        if y * y % TP == rhs:
            P = bc.multiply((FQ(x), FQ(y)), n1 // TR)
            if P is not None:
                g1 = [int(P[0].n), int(P[1].n)]
                break
    b2 = _f2mul((TB, 0), (1, 1))
    rng = random.Random(5)
    n2 = 3054916                     # #E'(Fp2), a multiple of r; re-established below by n2 * Q = O
    while True:
        x = (rng.randrange(TP), rng.randrange(TP))
        x3 = _f2mul(_f2mul(x, x), x)
        rhs = ((x3[0] + b2[0]) % TP, (x3[1] + b2[1]) % TP)
        y = f2_sqrt(TP, rhs)
        if y is None or _f2mul(y, y) != rhs:
            continue
        Q0 = (FQ2(list(x)), FQ2(list(y)))
        assert bc.multiply(Q0, n2) is None
        Q = bc.multiply(Q0, n2 // TR)
        if Q is not None:
            g2 = [[int(c) for c in Q[0].coeffs], [int(c) for c in Q[1].coeffs]]
            return {"p": TP, "r": TR, "T": TT, "b": TB, "g1": g1, "g2": g2}


_mods = {}


def modules(params):
    if "ref" in _mods:
        return _mods
    b = params["b"]
    for fam, cpath, ppath, pkg in (("ref", "py_ecc/bls12_381/bls12_381_curve.py", "py_ecc/bls12_381/bls12_381_pairing.py",
                                    "py_ecc.bls12_381"),
                                   ("opt", "py_ecc/optimized_bls12_381/optimized_curve.py",
                                    "py_ecc/optimized_bls12_381/optimized_pairing.py", "py_ecc.optimized_bls12_381")):
        FQ = toy.field_classes(TP, 1, (0,), fam)
        FQ2 = toy.field_classes(TP, 2, (1, 0), fam)
        FQ12 = toy.field_classes(TP, 12, MC12, fam)
        c = toy.private_module(cpath, pkg)
        c.FQ, c.FQ2, c.FQ12 = FQ, FQ2, FQ12
        c.field_modulus, c.curve_order = TP, TR
        c.b, c.b2, c.b12 = FQ(b), FQ2([b, b]), FQ12([b] + [0] * 11)
        c.w = FQ12([0, 1] + [0] * 10)
        one1 = () if fam == "ref" else (FQ.one(),)
        one2 = () if fam == "ref" else (FQ2.one(),)
        c.G1 = (FQ(params["g1"][0]), FQ(params["g1"][1])) + one1
        c.G2 = (FQ2(params["g2"][0]), FQ2(params["g2"][1])) + one2
        if fam == "opt":
            c.Z1, c.Z2 = (FQ.one(), FQ.one(), FQ.zero()), (FQ2.one(), FQ2.one(), FQ2.zero())
        pm = toy.private_module(ppath, pkg)
        pm.FQ, pm.FQ2, pm.FQ12 = FQ, FQ2, FQ12
        pm.field_modulus, pm.curve_order = TP, TR
        pm.b, pm.b2 = c.b, c.b2
        pm.G1 = c.G1
        pm.twist = c.twist
        pm.ate_loop_count = TT
        pm.log_ate_loop_count = TT.bit_length() - 2
        if fam == "opt":
            pm.pseudo_binary_encoding = [(TT >> k) & 1 for k in range(TT.bit_length() - 1)]   # digits below the top one
            pm.exptable = [FQ12([0] * k + [1] + [0] * (11 - k)) ** TP for k in range(12)]
        _mods[fam] = (c, pm, FQ, FQ2, FQ12)
    return _mods


def rows(ctx: Ctx, params):
    rng = random.Random(ctx.seed + 191)
    quick = ctx.tier == "quick"
    M = modules(params)
    out = []
    pairs = [(1, 1), (2, 1), (1, 2), (3, 5), (TR - 1, 1), (0, 1), (1, 0), (TR, 3), (TR + 1, 2)] + \
        [(rng.randrange(1, TR), rng.randrange(1, TR)) for _ in range(6 if quick else 60)]
    for fam in ("ref", "opt"):
        c, pm, FQ, FQ2, FQ12 = M[fam]
        for (a, b) in pairs:
            row = {"op": "pair", "m": fam, "a": a, "b": b, "x": []}
            try:
                P, Q = c.multiply(c.G1, a), c.multiply(c.G2, b)
                if fam == "opt" and rng.random() < 0.5 and not c.is_inf(P) and not c.is_inf(Q):   # another representative
                    l1, l2 = FQ(rng.randrange(2, TP)), FQ2([rng.randrange(TP), rng.randrange(1, TP)])
                    P, Q = tuple(v * l1 for v in P), tuple(v * l2 for v in Q)
                e = pm.pairing(Q, P)
                row["r"] = [int(v) if isinstance(v, int) else int(v.n) for v in e.coeffs]
            except Exception as ex:  # noqa: BLE001
                row["r"] = f"EXC:{type(ex).__name__}:{ex}"[:120]
            out.append(row)
            if fam == "opt" and a % TR and b % TR:
                row2 = {"op": "miller", "m": fam, "a": a, "b": b, "x": []}
                try:
                    e = pm.pairing(c.multiply(c.G2, b), c.multiply(c.G1, a), final_exponentiate=False)
                    row2["r"] = [int(v) if isinstance(v, int) else int(v.n) for v in e.coeffs]
                except Exception as ex:  # noqa: BLE001
                    row2["r"] = f"EXC:{type(ex).__name__}:{ex}"[:120]
                out.append(row2)
        sup = [[k] for k in range(12)] + [[0, 6], [6], [0, 2, 4, 6, 8, 10], [0, 3, 6, 9], [0, 4, 8], [1, 7], [0, 6, 11]]
        shaped = []
        for sp in sup:
            cs = [0] * 12
            for k in sp:
                cs[k] = rng.randrange(1, TP)
            shaped.append(cs)
        for x in [[rng.randrange(TP) if rng.random() < 0.7 else 0 for _ in range(12)] for _ in range(3 if quick else 20)] + \
                (shaped if fam == "opt" else shaped[:3]):
            for op, fn in (("fe", pm.final_exponentiate),) + ((("frob", pm.exp_by_p),) if fam == "opt" else ()):
                row = {"op": op, "m": fam, "a": 0, "b": 0, "x": x}
                try:
                    e = fn(FQ12(x))
                    row["r"] = [int(v) if isinstance(v, int) else int(v.n) for v in e.coeffs]
                except Exception as ex:  # noqa: BLE001
                    row["r"] = f"EXC:{type(ex).__name__}:{ex}"[:120]
                out.append(row)
    return out


def record_loop(pm, fam, Q, P):
    """Loop states of miller_loop at every evaluation of its `for` line (sys.settrace), or None when the function
    no longer has that shape."""
    import inspect
    import sys
    fn = pm.miller_loop
    code = fn.__code__
    try:
        src, first = inspect.getsourcelines(fn)
    except OSError:
        return None
    fl = [first + k for k, ln in enumerate(src) if ln.strip().startswith("for ") and ln.rstrip().endswith(":")]
    if len(fl) != 1:
        return None
    states = []
    cf = lambda x: [int(v) if isinstance(v, int) else int(v.n) for v in x.coeffs]        # noqa: E731

    def tracer(frame, event, arg):
        if frame.f_code is not code:
            return None
        if event == "line" and frame.f_lineno == fl[0]:
            loc = frame.f_locals
            try:
                if fam == "ref":
                    R = loc["R"]
                    states.append({"f": cf(loc["f"]), "fd": [1] + [0] * 11,
                                   "R": [cf(R[0]), cf(R[1]), [1] + [0] * 11] if R is not None else [[0] * 12, [1] + [0] * 11, [0] * 12]})
                else:
                    R = loc["twist_R"]
                    states.append({"f": cf(loc["f_num"]), "fd": cf(loc["f_den"]), "R": [cf(R[0]), cf(R[1]), cf(R[2])]})
            except Exception:  # noqa: BLE001 -- other local names: not the recorded shape
                states.append(None)
        return tracer
    old = sys.gettrace()
    sys.settrace(tracer)
    try:
        if fam == "ref":
            fn(pm.twist(Q), pm.cast_point_to_fq12(P))
        else:
            fn(Q, P, final_exponentiate=False)
    finally:
        sys.settrace(old)
    if not states or any(s is None for s in states):
        return None
    return states


def loop_rows(ctx: Ctx, params):
    rng = random.Random(ctx.seed + 193)
    M = modules(params)
    out = []
    pairs = [(1, 1), (TR - 1, 5)] + [(rng.randrange(1, TR), rng.randrange(1, TR)) for _ in range(1 if ctx.tier == "quick" else 12)]
    for fam in ("ref", "opt"):
        c, pm, FQ, FQ2, FQ12 = M[fam]
        for (a, b) in pairs:
            try:
                st = record_loop(pm, fam, c.multiply(c.G2, b), c.multiply(c.G1, a))
            except Exception:  # noqa: BLE001 -- failures of the pairing itself are judged by the "pair" rows
                st = None
            if st is not None:
                out.append({"op": "mloop", "m": fam, "a": a, "b": b, "x": [], "r": [], "states": st, "exc": ""})
    return out


def toy_pairing(ctx: Ctx, loops=True):
    params = find_params()
    rs = rows(ctx, params)
    ctx.note("toy_pairing_curve", params)
    ctx.log(f"toy pairing: {len(rs)} rows of the private bls12_381 / optimized_bls12_381 pairing copies (p = {TP}, r = {TR})")
    ctx.add_cov("toy_pairings", sum(1 for r in rs if r["op"] == "pair"))
    ctx.sample({"toy_pairing_row": {k: v for k, v in rs[3].items()}})
    tables.validate(ctx, "ToyPairing", rs, invariants=["PremisesOK", "RowsOK"], files={"PARAMS": [params]},
                    tag=lambda r: f"toypairing:{r['m']}:{r['op']}", describe=lambda r: str(r)[:400], java_opts="-Xss256m -Xmx8g")
    # step level: recorded loop states of the two Miller loops against MStep (conformance of the model, reported)
    if not loops:
        return
    lr = loop_rows(ctx, params)
    if not lr:
        ctx.note("miller_loop_steps_are_modelled_steps", "not recorded (miller_loop no longer has the recorded shape)")
        return
    d = ctx.tmp / "tbl_ToyPairing"
    tables.write_ndjson(d / "loops.ndjson", lr)
    res = ctx.tlc("ToyPairing", "SPECIFICATION Spec\nINVARIANT ModelOK\n", cont=True, name="ToyPairingLoops",
                  env={"TABLE": str(d / "loops.ndjson"), "PARAMS": str(d / "PARAMS.ndjson")}, timeout=3600,
                  java_opts="-Xss256m -Xmx8g")
    ctx.add_cov("miller_loop_states_recorded", sum(len(r["states"]) for r in lr))
    ctx.note("miller_loop_steps_are_modelled_steps", not res.violations)
    ctx.log(f"toy pairing: {len(lr)} recorded Miller loops ({sum(len(r['states']) for r in lr)} loop states), "
            f"{len(res.violations)} differ from ToyPairing!MStep (reported, not a violation)")

