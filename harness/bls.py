"""BLS ciphersuites (C01-C04): scenarios enumerated by TLC from BlsModel.tla are concretised into
real keys / messages / byte strings and run on the real library (spec -> code); every run, plus
randomly generated larger scenarios, is validated by TLC against the same model (code -> spec)."""
from __future__ import annotations

import json
import random
from multiprocessing import Pool

from . import tables
from .core import Ctx, Guarded, MachineryError, NCPU

CFG = ("SPECIFICATION Spec\nINVARIANT HonestVerifies\nINVARIANT OnlyCanonical\nINVARIANT MalformedRejected\n"
       "INVARIANT AggregateTheorem\nINVARIANT Dump\n")


def enumerate_scenarios(ctx: Ctx, maxn=2):
    res = ctx.tlc("BlsModel", CFG, env={"MAXN": maxn}, name="BlsModel", timeout=1800)
    for v in res.violations:
        ctx.violation(f"BlsModel:{v['name']}", f"BlsModel.tla: theorem {v['name']} fails (specification error)",
                      {"trace": v["trace"][-1:]})
    out = []
    for ln in res.out.splitlines():
        if ln.startswith('"{') and ln.rstrip().endswith('"'):
            try:
                out.append(json.loads(json.loads(ln)))
            except Exception:  # noqa: BLE001
                pass
    if len(out) < 1000:
        raise MachineryError(f"BlsModel dumped only {len(out)} scenarios")
    return out


# ----------------------------------------------------------------------------- concretisation (worker side)
_W = {}


def _init_worker():
    from py_ecc.bls import ciphersuites as cs
    from py_ecc.bls import g2_primitives as g2p
    from py_ecc import optimized_bls12_381 as ob
    if _W.get("ready"):
        return
    orig = cs.pairing
    log = []
    steps = []
    ids = {}
    P = ob.field_modulus

    def aff(pt):
        """Canonical affine coordinates by own arithmetic (None for infinity)."""
        cs_ = [tuple(int(t) for t in (c.coeffs if hasattr(c, "coeffs") else (c.n,))) for c in pt]
        if not any(cs_[2]):
            return "INF"
        if len(cs_[2]) == 1:
            zi = pow(cs_[2][0], P - 2, P)
            return ((cs_[0][0] * zi % P,), (cs_[1][0] * zi % P,))
        from .grouptrace import f2_inv, f2_mul
        zi = f2_inv(P, cs_[2])
        return (f2_mul(P, cs_[0], zi), f2_mul(P, cs_[1], zi))

    def pid(key):
        if key not in ids:
            ids[key] = len(ids) + 1
        return ids[key]

    def negaff(a):
        return a if a == "INF" else (a[0], tuple((-v) % P for v in a[1]))

    def st(**kw):
        e = {"k": "", "pk": 0, "pt": 0, "q": 0, "res": 0, "ok": 0, "qsrc": "", "psrc": ""}
        e.update(kw)
        steps.append(e)
    state = {"sig": None, "keys": {}, "hashes": set(), "wrapped": True}
    g1a = aff(ob.G1)

    def rec_pairing(Q, Pp, final_exponentiate=True):
        ev = {"qonc": 1 if ob.is_on_curve(Q, ob.b2) else 0, "qsub": 0, "ponc": 1 if ob.is_on_curve(Pp, ob.b) else 0,
              "psub": 0, "pinf": 1 if ob.is_inf(Pp) else 0}
        if ev["qonc"]:
            ev["qsub"] = 1 if g2p.subgroup_check(Q) else 0
        if ev["ponc"]:
            ev["psub"] = 1 if g2p.subgroup_check(Pp) else 0
        log.append(ev)
        try:
            qa, pa = aff(Q), aff(Pp)
            qsrc = "sig" if qa == state["sig"] else ("hash" if qa in state["hashes"] else "other")
            psrc, pkid = "other", 0
            if pa in (g1a, negaff(g1a)):
                psrc = "g1"
            else:
                for kb, ka in state["keys"].items():
                    if pa in (ka, negaff(ka)):
                        psrc, pkid = "pk", pid(("pk", kb))
            st(k="pair", q=pid(("pt", qa)), qsrc=qsrc, psrc=psrc, pk=pkid)
        except Exception:  # noqa: BLE001 -- classification must never disturb the run
            state["wrapped"] = False
        return orig(Q, Pp, final_exponentiate=final_exponentiate)
    cs.pairing = rec_pairing          # run-time wrapper on the module global the verifiers look up
    try:
        o_sub, o_s2g, o_p2g, o_fe, o_h2g = cs.subgroup_check, cs.signature_to_G2, cs.pubkey_to_G1, cs.final_exponentiate, cs.hash_to_G2
        o_kv = cs.BaseG2Ciphersuite.__dict__["KeyValidate"].__func__

        def subgroup_check(pt):
            res = o_sub(pt)
            st(k="ssub", pt=pid(("pt", aff(pt))), res=1 if res is True else 0)
            return res

        def signature_to_G2(sg):
            try:
                pt = o_s2g(sg)
            except Exception:
                st(k="dsig", ok=0)
                raise
            state["sig"] = aff(pt)
            st(k="dsig", ok=1, pt=pid(("pt", state["sig"])))
            return pt

        def pubkey_to_G1(pk):
            try:
                pt = o_p2g(pk)
            except Exception:
                st(k="dpk", pk=pid(("pk", bytes(pk))), ok=0)
                raise
            state["keys"][bytes(pk)] = aff(pt)
            st(k="dpk", pk=pid(("pk", bytes(pk))), ok=1, pt=pid(("pt", aff(pt))))
            return pt

        def final_exponentiate(x):
            st(k="fe")
            return o_fe(x)

        def hash_to_G2(m_, d_, h_):
            pt = o_h2g(m_, d_, h_)
            state["hashes"].add(aff(pt))
            return pt

        def KeyValidate(PK):
            res = o_kv(PK)
            st(k="kv", pk=pid(("pk", bytes(PK) if isinstance(PK, (bytes, bytearray)) else repr(PK))), res=1 if res is True else 0)
            return res
        cs.subgroup_check, cs.signature_to_G2, cs.pubkey_to_G1, cs.final_exponentiate, cs.hash_to_G2 = \
            subgroup_check, signature_to_G2, pubkey_to_G1, final_exponentiate, hash_to_G2
        cs.BaseG2Ciphersuite.KeyValidate = staticmethod(KeyValidate)
    except Exception:  # noqa: BLE001 -- the module no longer has this shape: the step-level check is skipped
        state["wrapped"] = False
    _W.update(steps=steps, pstate=state)
    _W.update(ready=True, log=log, cs=cs, g2p=g2p, ob=ob,
              suites={"basic": cs.G2Basic, "aug": cs.G2MessageAugmentation, "pop": cs.G2ProofOfPossession})


class HonestError(Exception):
    """SkToPk / Sign / PopProve raised on a valid secret key and a byte-string message (C01: they never do)."""


def _honest(what, fn):
    try:
        return fn()
    except Exception as e:  # noqa: BLE001
        raise HonestError(f"{what} raised {type(e).__name__}: {e}"[:300]) from e


class World:
    """Concrete values for the abstract names of one scenario (fresh random keys per scenario)."""

    MLENS = [0, 1, 32, 55, 56, 63, 64, 65, 200, 2100, 65500, 66000, 1000003]     # beyond the 16-bit lengths of expand_message_xmd too

    def __init__(self, seed, nonempty_m1=False, empty_m1=False, long_tail=False):
        ob = _W["ob"]
        self.rng = random.Random(seed)
        self.r = ob.curve_order
        self.p = ob.field_modulus
        while True:
            k = [self.rng.randrange(2 ** 200, self.r - 1) for _ in range(3)]
            if len(set(k)) == 3 and (k[0] + k[1]) % self.r not in (0, 1) and k[0] + 1 < self.r:
                break
        self.k = k
        ms = set()
        while len(ms) < 3:
            ms.add(self.rng.randbytes(self.rng.choice(self.MLENS)))
        ms = sorted(ms, key=lambda b: (len(b), b))
        self.rng.shuffle(ms)
        if nonempty_m1 and not ms[0]:       # "K1m1" (= PK || m1) must differ from "K1" (= PK) as bytes
            ms[0], ms[1] = ms[1], ms[0]
        if long_tail:       # three long messages that differ only beyond the first 64 KiB
            base_ = self.rng.randbytes(70000)
            ms = [base_, base_[:-1] + bytes([base_[-1] ^ 1]), base_[:65536]]
        if empty_m1 and not nonempty_m1:
            ms = [b""] + [x for x in ms if x][:2]
            while len(ms) < 3:
                ms.append(self.rng.randbytes(7 + len(ms)))
        self.m = dict(zip(("m1", "m2", "m3"), ms))
        self.rng.shuffle(self.k)
        self._pk = {}
        self._sig = {}

    def sk(self, name):
        k1, k2, k3 = self.k
        return {"K1": k1, "K2": k2, "K3": k3, "N1": self.r - k1, "S12": (k1 + k2) % self.r, "P1": k1 + 1,
                "M1": k1 - 1, "ONE": 1}[name]

    def pk(self, name):
        if name not in self._pk:
            self._pk[name] = _honest(f"SkToPk({name})", lambda: _W["suites"]["basic"].SkToPk(self.sk(name)))
        return self._pk[name]

    def msg(self, name):
        if name == "K1m1":
            return bytes(self.pk("K1")) + self.m["m1"]
        if name == "K1":
            return bytes(self.pk("K1"))
        return self.m[name]

    # ---- signatures
    def term_point(self, t):
        g2p, ob = _W["g2p"], _W["ob"]
        if t["kind"] == "zero":
            return ob.Z2
        if t["kind"] == "rnd":
            return ob.multiply(ob.G2, self.rng.randrange(2, self.r))
        if t["kind"] == "pop":
            sig = _honest("PopProve", lambda: _W["suites"]["pop"].PopProve(self.sk(t["key"])))
        else:
            sig = _honest(f"Sign ({t['suite']}, {len(self.msg(t['msg']))}-byte message)",
                          lambda: _W["suites"][t["suite"]].Sign(self.sk(t["key"]), self.msg(t["msg"])))
        pt = g2p.signature_to_G2(sig)
        c = t["coef"]
        if c == 1:
            return pt
        if c == -1:
            return ob.neg(pt)
        return ob.multiply(pt, c % self.r)

    def sig_bytes(self, desc):
        g2p, ob = _W["g2p"], _W["ob"]
        if len(desc) == 1 and desc[0]["kind"] in ("sign", "pop") and desc[0]["coef"] == 1:
            t = desc[0]                     # literally what Sign / PopProve returned
            if t["kind"] == "pop":
                return _honest("PopProve", lambda: _W["suites"]["pop"].PopProve(self.sk(t["key"])))
            return _honest(f"Sign ({t['suite']}, {len(self.msg(t['msg']))}-byte message)",
                           lambda: _W["suites"][t["suite"]].Sign(self.sk(t["key"]), self.msg(t["msg"])))
        acc = ob.Z2
        for t in desc:
            acc = ob.add(acc, self.term_point(t))
        return g2p.G2_to_signature(acc)

    # ---- malformed inputs
    def _word(self, c, b, a, x):
        return ((c << 383) | (b << 382) | (a << 381) | x).to_bytes(48, "big")

    def torsion(self):
        """One point of E(Fp) of order dividing the cofactor (not the identity), fixed for this world."""
        if getattr(self, "_T", None) is None:
            ob = _W["ob"]
            p = self.p
            while True:
                x = self.rng.randrange(1, p)
                rhs = (x * x * x + 4) % p
                y = pow(rhs, (p + 1) // 4, p)
                if y * y % p != rhs:
                    continue
                T = ob.multiply((ob.FQ(x), ob.FQ(y), ob.FQ(1)), self.r)
                if not ob.is_inf(T):
                    self._T = T
                    break
        return self._T

    LENGTH_VARIANTS = ("short", "long_prefix", "long_suffix")

    def length_variants(self, cls):
        """All wrongly sized variants of K1's encoding of one class (KeyValidate is shown every one of them)."""
        pk = self.pk("K1")
        return {"short": [b"", pk[:47], pk[1:], pk[:20], pk[:1], pk[:-1] + b""],
                "long_prefix": [b"\x00" + pk, b"\x01" + pk, b"\xff" * 10 + pk, b"\x00" * 48 + pk, b"\x80" + pk],
                "long_suffix": [pk + b"\x00", pk + b"\x01", pk + pk, pk + b"\xff" * 152, pk + bytes(48)]}[cls]

    def bad_key(self, cls, keyname="K1"):
        rng, p = self.rng, self.p
        pk = self.pk("K1")
        ob, g2p = _W["ob"], _W["g2p"]
        if cls in ("nonsubgroup_plus", "nonsubgroup_minus"):
            T = self.torsion()
            base = ob.multiply(ob.G1, self.sk(keyname))
            return g2p.G1_to_pubkey(ob.add(base, T if cls.endswith("plus") else ob.neg(T)))
        if cls in self.LENGTH_VARIANTS:
            return rng.choice(self.length_variants(cls))
        if cls == "wide_view":
            return memoryview(bytes(48) + bytes(pk)).cast("H")
        if cls == "cflag0":
            return bytes([pk[0] & 0x7f]) + pk[1:]
        if cls == "inf_badflags":
            return rng.choice([bytes([0xe0]) + bytes(47), bytes([pk[0] | 0x40]) + pk[1:], bytes([0xc0]) + bytes(46) + b"\x01"])
        if cls == "x_ge_p":
            return self._word(1, 0, rng.randrange(2), rng.choice([p, p + 1, 2 ** 381 - 1, p + rng.randrange(2, 1000)]))
        if cls == "identity":
            return bytes([0xc0]) + bytes(47)
        while True:
            x = rng.randrange(1, p)
            rhs = (x * x * x + 4) % p
            y = pow(rhs, (p + 1) // 4, p)
            on = y * y % p == rhs
            if cls == "offcurve" and not on:
                return self._word(1, 0, rng.randrange(2), x)
            if cls == "nonsubgroup" and on:
                P = (ob.FQ(x), ob.FQ(y), ob.FQ(1))
                if not g2p.subgroup_check(P):
                    return g2p.G1_to_pubkey(P)

    def bad_sig(self, cls, desc):
        rng, p = self.rng, self.p
        ob, g2p = _W["ob"], _W["g2p"]
        sg = bytes(self.sig_bytes(desc))
        if cls == "wide_view":
            return memoryview(b"\xff" * 48 + sg[:48] + bytes(48) + sg[48:]).cast("H")     # each half in the low bytes of its slice
        if cls == "short":
            return rng.choice([b"", sg[:95], sg[1:], sg[:48]])
        if cls == "long_prefix":
            return rng.choice([b"\x00" + sg, b"\xff" * 7 + sg])
        if cls == "long_suffix":
            return rng.choice([sg + b"\x00", sg + sg])
        if cls == "cflag0":
            return bytes([sg[0] & 0x7f]) + sg[1:]
        if cls == "inf_badflags":
            cands = [bytes([0xe0]) + bytes(95), bytes([0xc0]) + bytes(94) + b"\x01", bytes([0xc0]) + bytes(47) + b"\x01" + bytes(47)]
            if sg[0] & 0x40 == 0:
                cands.append(bytes([sg[0] | 0x40]) + sg[1:])        # infinity flag on a finite point
            return rng.choice(cands)
        if cls == "x_ge_p":
            return self._word(1, 0, rng.randrange(2), rng.choice([p, p + 1, 2 ** 381 - 1])) + sg[48:]
        if cls == "z2_ge_p":
            return sg[:48] + rng.choice([p, p + 7, 2 ** 381 - 1]).to_bytes(48, "big")
        if cls == "z2_flagbits":
            return sg[:48] + bytes([sg[48] | rng.choice([0x80, 0x40, 0x20, 0xe0])]) + sg[49:]
        if cls == "bitflip":
            i = self.flipbit if getattr(self, "flipbit", None) is not None else rng.randrange(96 * 8)
            b = bytearray(sg)
            b[i // 8] ^= 1 << (i % 8)
            return bytes(b)
        from .grouptrace import f2_mul, f2_sqrt
        while True:
            x = (rng.randrange(p), rng.randrange(p))
            x3 = f2_mul(p, f2_mul(p, x, x), x)
            rhs = ((x3[0] + 4) % p, (x3[1] + 4) % p)
            y = f2_sqrt(p, rhs)
            on = y is not None and f2_mul(p, y, y) == rhs
            if cls == "offcurve" and not on:
                return self._word(1, 0, rng.randrange(2), x[1]) + x[0].to_bytes(48, "big")
            if cls == "nonsubgroup" and on:
                P = (ob.FQ2(list(x)), ob.FQ2(list(y)), ob.FQ2.one())
                if not g2p.subgroup_check(P):
                    if desc and desc[0]["kind"] == "zero":
                        return g2p.G2_to_signature(P)
                    # the presented signature plus a cofactor-torsion component
                    T = ob.multiply(P, self.r)
                    if not ob.is_inf(T) and self.rng.random() < 0.5:
                        S = g2p.signature_to_G2(sg)
                        return g2p.G2_to_signature(ob.add(S, T))
                    return g2p.G2_to_signature(P)

    def key_bytes(self, pk):
        if pk["cls"] == "valid":
            return bytes(self.pk(pk["key"]))
        v = self.bad_key(pk["cls"], pk["key"])
        return v if isinstance(v, memoryview) else bytes(v)

    def sigval_bytes(self, sg):
        if sg["cls"] == "valid":
            return bytes(self.sig_bytes(sg["desc"]))
        v = self.bad_sig(sg["cls"], sg["desc"])
        return v if isinstance(v, memoryview) else bytes(v)


def _run_chain(job):
    """Several scenarios in ONE interpreter, one after the other, with the same concrete keys and messages."""
    idx0, seed, scs = job
    out = []
    for k, sc in enumerate(scs):
        out.append(_run_scenario((idx0 + k, seed, sc)))
    return out


def _run_scenario(job):
    idx, seed, sc = job
    _init_worker()
    log = _W["log"]
    row = {"op": "run", "sc": sc, "got": 0, "raised": 0, "pair": [], "idx": idx, "steps": [], "stepsok": 0}
    try:
        w = World(seed, nonempty_m1="K1m1" in json.dumps(sc), empty_m1=bool(sc.get("empty_m1")), long_tail=bool(sc.get("long_tail")))
        w.flipbit = sc["sig"].get("bit")
        S = _W["suites"][sc["suite"]]
        pks = [w.key_bytes(pk) for pk in sc["pks"]]
        ms = [w.msg(m) for m in sc["msgs"]]
        sig = w.sigval_bytes(sc["sig"])
    except HonestError as e:          # honest key / signature production raised: a verdict (C01), not machinery
        row["build_error"] = row["honest_error"] = str(e)
        return row
    except Exception as e:  # noqa: BLE001 -- building the input failed: machinery, not a verdict
        row["build_error"] = f"{type(e).__name__}:{e}"[:200]
        return row
    del log[:]
    del _W["steps"][:]
    _W["pstate"]["sig"] = None
    _W["pstate"]["keys"].clear()
    _W["pstate"]["hashes"].clear()
    try:
        e = sc["entry"]
        if e == "Verify":
            res = S.Verify(pks[0], ms[0], sig)
        elif e == "PopVerify":
            res = S.PopVerify(pks[0], sig)
        elif e == "AggregateVerify":
            res = S.AggregateVerify(pks, ms, sig)
        elif e == "FastAggregateVerify":
            res = S.FastAggregateVerify(pks, ms[0], sig)
        elif e == "KeyValidate":
            res = S.KeyValidate(pks[0])
        else:
            raise MachineryError(e)
        if not isinstance(res, bool):
            row["exc"] = f"BADVALUE:{res!r}"[:80]
        row["got"] = 1 if res is True else 0
    except Exception as ex:  # noqa: BLE001 -- the property: never raises
        row["raised"] = 1
        row["raise_info"] = f"{type(ex).__name__}:{ex}"[:160]
    row["pair"] = list(log)
    row["steps"] = list(_W["steps"])
    row["stepsok"] = 1 if _W["pstate"]["wrapped"] else 0
    row["inputs"] = {"pks": [bytes(b).hex() for b in pks], "msgs": [m.hex()[:64] for m in ms], "sig": bytes(sig).hex()}
    # the same call once more in the same interpreter (malformed inputs always, the others one time in four): a
    # verdict must not depend on the input having been presented before
    row["again"] = row["got"]
    malformed = any(pk.get("cls") != "valid" for pk in sc["pks"]) or sc["sig"].get("cls") != "valid"
    if not row["raised"] and (malformed or idx % 4 == 0):
        try:
            res2 = {"Verify": lambda: S.Verify(pks[0], ms[0], sig), "PopVerify": lambda: S.PopVerify(pks[0], sig),
                    "AggregateVerify": lambda: S.AggregateVerify(pks, ms, sig),
                    "FastAggregateVerify": lambda: S.FastAggregateVerify(pks, ms[0], sig),
                    "KeyValidate": lambda: S.KeyValidate(pks[0])}[sc["entry"]]()
            row["again"] = 1 if res2 is True else 0
            if sc["entry"] == "KeyValidate" and sc["pks"][0].get("cls") in World.LENGTH_VARIANTS:
                for v in w.length_variants(sc["pks"][0]["cls"]):           # every variant, every suite: False, no raise
                    for S2 in _W["suites"].values():
                        if S2.KeyValidate(v) is not False:
                            row["again"] = 1
        except Exception as ex:  # noqa: BLE001
            row["again"] = -1
            row["raise_info"] = f"second call: {type(ex).__name__}:{ex}"[:160]
    return row


SK_CLASSES = ["1", "2", "mid", "bits", "r-2", "r-1", "0", "r", "r+1", "-1", "2^255", "2r", "nonint", "bandpk", "bandsig", "intsub"]


def _run_seq(job):
    """One interpreter, one key: sign the SAME bytes under every suite and tag back to back, then verify each
    (a value remembered from one call must not leak into the next)."""
    idx, seed = job
    _init_worker()
    rng = random.Random(seed)
    r = _W["ob"].curve_order
    B, A, P = _W["suites"]["basic"], _W["suites"]["aug"], _W["suites"]["pop"]
    row = {"op": "sk", "cls": "mid", "suite": "sequence", "raised": 0, "ok": 0, "bitlen": 0}
    try:
        sk = rng.randrange(1, r)
        pk = B.SkToPk(sk)
        m = rng.choice([rng.randbytes(rng.choice(World.MLENS)), bytes(pk)])
        order = [("basic", B), ("pop", P), ("aug", A)]
        rng.shuffle(order)
        sigs = [(S, S.Sign(sk, m)) for (_, S) in order]
        proof = P.PopProve(sk)
        sig_on_pk = P.Sign(sk, bytes(pk))
        proof2 = P.PopProve(sk)
        ok = all(S.Verify(pk, m, sg) is True for (S, sg) in sigs)
        ok = ok and P.PopVerify(pk, proof) is True and P.Verify(pk, bytes(pk), sig_on_pk) is True and proof == proof2
        ok = ok and all(S.Sign(sk, m) == sg for (S, sg) in sigs)           # and signing again gives the same bytes
        row["ok"] = 1 if ok else 0
    except Exception as e:  # noqa: BLE001
        row["exc"] = f"EXC:{type(e).__name__}:{e}"[:120]
    return row


def _run_vseq(job):
    """One interpreter, one key and message: Verify on the canonical signature and on wrong ones, interleaved and
    repeated (the verdict on a string must not depend on what was verified before)."""
    idx, seed = job
    _init_worker()
    rng = random.Random(seed)
    ob, g2p = _W["ob"], _W["g2p"]
    r = ob.curve_order
    sname = ("basic", "aug", "pop")[idx % 3]
    S = _W["suites"][sname]
    row = {"op": "vseq", "suite": sname, "calls": [], "raised": 0}
    try:
        sk = [1, r - 1, rng.randrange(2, r - 1), rng.randrange(2, r - 1)][idx % 4]
        m = rng.randbytes(rng.choice([0, 1, 32, 100]))
        pk = S.SkToPk(sk)
        sig = S.Sign(sk, m)
        pt = g2p.signature_to_G2(sig)
        cands = {"canonical": sig, "negated": g2p.G2_to_signature(ob.neg(pt)), "identity": g2p.G2_to_signature(ob.Z2),
                 "other_message": S.Sign(sk, m + b"x"), "other_key": S.Sign(sk % (r - 2) + 1, m),
                 "doubled": g2p.G2_to_signature(ob.double(pt))}
        order = ["canonical", "negated", "canonical", "canonical", "canonical", "identity", "negated", "canonical",
                 "other_message", "doubled", "canonical", "other_key", "negated", "canonical"]
        if idx % 2:
            order = ["negated", "canonical", "negated"] + order
        for kind in order:
            res = S.Verify(pk, m, cands[kind])
            row["calls"].append({"kind": kind, "got": 1 if res is True else 0})
    except Exception as e:  # noqa: BLE001
        row["exc"] = f"EXC:{type(e).__name__}:{e}"[:120]
    return row


def _band_search(rng, cls, suite, want_top=True):
    """Input generation only: a valid secret key (and message) for which a coordinate of the public key
    ("bandpk") or of the signature point ("bandsig", basic / pop suite) lies in a boundary band of the 381-bit
    range - top byte 0x1a (the narrow band just below p), or a zero top byte.  Found by walking k -> k + 1 with
    one point addition per step; the abstraction to affine x is the harness's own arithmetic."""
    ob = _W["ob"]
    p, r = ob.field_modulus, ob.curve_order
    msg = rng.randbytes(rng.choice(World.MLENS))
    k = rng.randrange(2 ** 200, r - 10 ** 6)
    if cls == "bandsig" and suite != "aug":
        from py_ecc.bls.hash_to_curve import hash_to_G2
        S = _W["suites"][suite]
        base = hash_to_G2(msg, S.DST, S.xmd_hash_function)
        deg = 2
    else:
        base, deg = ob.G1, 1
    P = ob.multiply(base, k)
    hit = lambda v: (v >> 376) == 0x1a if want_top else (v >> 376) == 0       # noqa: E731
    for _ in range(40000):
        if deg == 1:
            x = int(P[0].n) * pow(int(P[2].n), p - 2, p) % p
            found = hit(x)
        else:
            from .grouptrace import f2_inv, f2_mul
            X = tuple(int(c) for c in P[0].coeffs)
            Z = tuple(int(c) for c in P[2].coeffs)
            x = f2_mul(p, X, f2_inv(p, Z))
            found = hit(x[0]) or hit(x[1])
        if found:
            return k, msg, 1
        P = ob.add(P, base)
        k += 1
    return k, msg, 0


def _run_sk(job):
    idx, seed, cls, suite = job
    _init_worker()
    from eth_utils import ValidationError
    rng = random.Random(seed)
    r = _W["ob"].curve_order
    S = _W["suites"][suite]
    kk = 1 + idx % 254
    # all-ones, a single bit, a run of ones, random below a top bit, all-ones with one hole: the form is taken
    # from the job's seed so that consecutive seeds go through all five
    pattern = [(1 << kk) - 1, 1 << kk, (1 << kk) - (1 << rng.randrange(0, kk)), (1 << kk) | rng.getrandbits(kk),
               ((1 << kk) - 1) ^ (1 << rng.randrange(0, kk))][seed % 5]
    band = None
    if cls in ("bandpk", "bandsig"):
        band = _band_search(rng, cls, suite, want_top=(idx % 3 != 2))
    val = {"1": 1, "2": 2, "mid": rng.getrandbits(128) | 1, "bits": pattern, "bandpk": band and band[0], "bandsig": band and band[0], "intsub": 1,
           "r-2": r - 2, "r-1": r - 1, "0": 0, "r": r, "r+1": r + 1, "-1": -1, "2^255": 2 ** 255, "2r": 2 * r,
           "nonint": rng.choice(["1", 1.0, None, b"\x01", (1,)])}[cls]
    if cls == "bits":
        val = min(max(val, 1), r - 1)
    if cls == "intsub":         # an integer of an int SUBCLASS (not bool): a valid secret key like any other int
        import enum

        class _U256(int):
            pass
        val = rng.choice([_U256(rng.randrange(1, r)), enum.IntEnum("K", {"A": rng.randrange(1, r)}).A, _U256(1), _U256(r - 1)])
    if cls == "nonint":
        # values that compare / hash equal to a valid key used just before in the same interpreter, and
        # unhashable ones: every one of them must be refused with ValidationError by every entry point
        from decimal import Decimal
        from fractions import Fraction
        row = {"op": "sk", "cls": cls, "suite": suite, "raised": 1, "ok": 0, "bitlen": -1}
        try:
            for base in (1, 2, 3, r - 2):
                S.SkToPk(base)
                S.Sign(base, b"prime the caches")
            for bad in (1.0, 2.0, Fraction(2), Decimal(3), Fraction(r - 2), "1", None, b"\x01", [2], {2}, (1,), 2.5, True if False else 1j):
                for fn in ((lambda: S.SkToPk(bad)), (lambda: S.Sign(bad, b"m"))) + \
                        (((lambda: S.PopProve(bad)),) if suite == "pop" else ()):
                    try:
                        fn()
                        row["raised"] = 0
                        row["exc"] = f"BADVALUE:accepted non-integer key {bad!r}"
                    except ValidationError:
                        pass
        except Exception as e:  # noqa: BLE001
            row["exc"] = f"EXC:{type(e).__name__}:{e}"[:120]
        return row
    msg = band[1] if band else rng.randbytes(rng.choice(World.MLENS))
    row = {"op": "sk", "cls": cls, "suite": suite, "raised": 0, "ok": 0, "bitlen": val.bit_length() if isinstance(val, int) else -1}
    if band:
        row["band"] = band[2]
    try:
        try:
            pk = S.SkToPk(val)
            sig = S.Sign(val, msg)
        except ValidationError:
            row["raised"] = 1
            try:                          # both must refuse
                S.Sign(val, msg)
                row["exc"] = "BADVALUE:Sign accepted a key SkToPk refused"
            except ValidationError:
                pass
            # ... however the key is handed over (keyword arguments, if the parameters still have these names)
            for fn, kw in ((S.SkToPk, {"privkey": val}), (S.Sign, {"SK": val, "message": msg})):
                try:
                    fn(**kw)
                    row["exc"] = f"BADVALUE:{fn.__name__} accepted a key passed by keyword that it refuses positionally"
                except ValidationError:
                    pass
                except TypeError:         # another parameter name: not this check's business
                    pass
            if suite == "pop":
                try:
                    S.PopProve(val)
                    row["exc"] = "BADVALUE:PopProve accepted a key SkToPk refused"
                except ValidationError:
                    pass
            return row
        ok = S.KeyValidate(pk) is True and S.Verify(pk, msg, sig) is True
        if suite == "pop":
            ok = ok and S.PopVerify(pk, S.PopProve(val)) is True
        row["ok"] = 1 if ok else 0
    except Exception as e:  # noqa: BLE001
        row["exc"] = f"EXC:{type(e).__name__}:{e}"[:120]
    return row


def _run_keygen(job):
    idx, seed, suite = job
    _init_worker()
    rng = random.Random(seed)
    S = _W["suites"][suite]
    row = {"op": "sk", "cls": "mid", "suite": suite, "raised": 0, "ok": 0, "bitlen": 0, "keygen": 1}
    try:
        sk = S.KeyGen(rng.randbytes(rng.choice([32, 33, 48, 64])), rng.randbytes(rng.choice([0, 0, 5])))
        row["bitlen"] = sk.bit_length()
        msg = rng.randbytes(40)
        ok = isinstance(sk, int) and 1 <= sk < _W["ob"].curve_order
        pk = S.SkToPk(sk)
        ok = ok and S.Verify(pk, msg, S.Sign(sk, msg)) is True
        row["ok"] = 1 if ok else 0
    except Exception as e:  # noqa: BLE001
        row["exc"] = f"EXC:{type(e).__name__}:{e}"[:120]
    return row


def _sign_t(s, k, m):
    return {"kind": "sign", "coef": 1, "suite": s, "key": k, "msg": m, "j": 0}


def _run_agg(job):
    idx, seed, a, b, nest = job
    _init_worker()
    from eth_utils import ValidationError
    w = World(seed)
    S = _W["suites"]["basic"]
    row = {"op": "agg", "a": a, "b": b, "eq": 0, "raised": 0}
    try:
        sa = [bytes(w.sig_bytes(d)) for d in a]
        sb = [bytes(w.sig_bytes(d)) for d in b]
        try:
            ra = S.Aggregate(sa)
            if nest and len(sb) >= 3:       # regrouping: aggregate of an aggregate
                rb = S.Aggregate([S.Aggregate(sb[:2])] + sb[2:])
            else:
                rb = S.Aggregate(sb)
            row["eq"] = 1 if bytes(ra) == bytes(rb) else 0
            if len(ra) != 96:
                row["exc"] = "BADVALUE:aggregate is not 96 bytes"
            # wrongly sized entries are refused
            for bad in (sa[0][:95], sa[0] + b"\x00", b""):
                try:
                    S.Aggregate([bad] + sa[1:])
                    row["exc"] = "BADVALUE:Aggregate accepted a wrongly sized entry"
                except ValidationError:
                    pass
        except ValidationError:
            row["raised"] = 1
    except Exception as e:  # noqa: BLE001
        row["exc"] = f"EXC:{type(e).__name__}:{e}"[:120]
    return row


def random_scenarios(rng, count, nmax):
    """Larger signer sets (repeated keys / messages allowed) with one random perturbation."""
    out = []
    keys = ["K1", "K2", "K3", "N1", "S12"]
    for _ in range(count):
        n = rng.choice([3, 4, 5, 8, nmax])
        s = rng.choice(["basic", "aug", "pop"])
        sg = [(rng.choice(keys), rng.choice(["m1", "m2", "m3"])) for _ in range(n)]
        if s == "basic" and rng.random() < 0.7:      # distinct messages are a precondition there: keep n <= 3
            sg = [(rng.choice(keys), m) for m in ("m1", "m2", "m3")][:rng.randrange(1, 4)]
        if rng.random() < 0.3:
            sg = [(k, "m1") for (k, _) in sg]
        pks = [{"cls": "valid", "key": k} for (k, _) in sg]
        ms = [m for (_, m) in sg]
        d = [_sign_t(s, k, m) for (k, m) in sg]
        kind = rng.choice(["honest", "honest", "shuffle", "drop_sig", "dup_sig", "drop_pair", "subst_key", "subst_msg",
                           "swap_pairs", "bad_key", "fast", "fast_drop"])
        entry = "AggregateVerify"
        if kind == "shuffle":
            rng.shuffle(d)
        elif kind == "drop_sig" and len(d) > 1:
            d.pop(rng.randrange(len(d)))
        elif kind == "dup_sig":
            d.append(rng.choice(d))
        elif kind == "drop_pair" and len(pks) > 1:
            j = rng.randrange(len(pks))
            pks.pop(j)
            ms.pop(j)
        elif kind == "subst_key":
            pks[rng.randrange(len(pks))] = {"cls": "valid", "key": rng.choice(keys)}
        elif kind == "subst_msg":
            ms[rng.randrange(len(ms))] = rng.choice(["m1", "m2", "m3"])
        elif kind == "swap_pairs" and len(pks) > 1:
            i, j = rng.sample(range(len(pks)), 2)
            pks[i], pks[j] = pks[j], pks[i]
            ms[i], ms[j] = ms[j], ms[i]
        elif kind == "bad_key":
            pks[rng.randrange(len(pks))] = {"cls": rng.choice(["short", "identity", "nonsubgroup", "offcurve", "x_ge_p"]), "key": "K1"}
        elif kind in ("fast", "fast_drop"):
            entry, s = "FastAggregateVerify", "pop"
            d = [_sign_t("pop", pk["key"], "m1") for pk in pks]
            ms = ["m1"]
            if kind == "fast_drop" and len(d) > 1:
                d.pop()
        out.append({"entry": entry, "suite": s, "pks": pks, "msgs": ms, "sig": {"cls": "valid", "desc": d},
                    "note": "random_" + kind})
    return out


def select(scs, rng, per_group):
    groups = {}
    for s in scs:
        groups.setdefault((s["sc"]["entry"], s["sc"]["suite"], s["sc"]["note"], len(s["sc"]["pks"])), []).append(s)
    out = []
    for key in sorted(groups):
        g = groups[key]
        rng.shuffle(g)
        # keep accepted and rejected predictions both represented
        acc = [x for x in g if x["expect"]]
        rej = [x for x in g if not x["expect"]]
        # among the rejected ones, first those that would be accepted if the encodings were canonical
        rej.sort(key=lambda x: 0 if x.get("core") else 1)
        if key[0] == "KeyValidate":         # cheap calls: every class of every run
            out += g
        else:
            out += acc[:per_group] + rej[:per_group]
    return out


def run(ctx: Ctx, focus):
    """focus: which property is being decided (selects the scenario families that are run)."""
    rng = random.Random(ctx.seed + 211)
    quick = ctx.tier == "quick"
    enum = enumerate_scenarios(ctx, 2 if quick or focus in ("C01", "C02") else 3)
    ctx.note("scenarios_enumerated_by_tlc", len(enum))

    def fam(s):
        e, note, n = s["sc"]["entry"], s["sc"]["note"], len(s["sc"]["pks"])
        bad = note.startswith("bad_") or note == "malformed" or any(p["cls"] != "valid" for p in s["sc"]["pks"]) \
            or s["sc"]["sig"]["cls"] != "valid"
        if focus == "C01":
            return note == "canonical" or (e == "KeyValidate" and not bad)
        if focus == "C02":
            return e in ("Verify", "PopVerify") and not (note == "bad_key")
        if focus == "C03":
            return e in ("AggregateVerify", "FastAggregateVerify") and (not bad or note.startswith("bad_key"))
        if focus == "C04":
            return bad or e == "KeyValidate"
        return True
    pool = [s for s in enum if fam(s)]
    per = {"C01": 8, "C02": 5, "C03": 2, "C04": 2}[focus] if quick else {"C01": 40, "C02": 20, "C03": 8, "C04": 8}[focus]
    chosen = select(pool, rng, per)
    if focus == "C01":          # the same honest round trips with many fresh keys / message lengths
        chosen = chosen * (10 if quick else 60)
    jobs = [(i, ctx.seed * 7919 + i, s["sc"]) for i, s in enumerate(chosen)]
    expect = {i: s["expect"] for i, s in enumerate(chosen)}
    extra = []
    if focus == "C03":
        extra = random_scenarios(rng, 24 if quick else 300, 8 if quick else 32)
    elif focus == "C04":
        extra = [s for s in random_scenarios(rng, 200 if quick else 1500, 6) if s["note"] == "random_bad_key"]
    elif focus == "C02":
        # single-bit flips of the canonical signature at chosen positions (all 768 per suite in the thorough tier)
        bits = list(range(768)) if not quick else sorted(set(rng.sample(range(768), 90) + [0, 1, 2, 3, 7, 8, 383, 384, 385, 386, 767]))
        for s_ in ("basic", "aug", "pop"):
            for b in bits:
                extra.append({"entry": "Verify", "suite": s_, "pks": [{"cls": "valid", "key": "K1"}], "msgs": ["m1"],
                              "sig": {"cls": "bitflip", "desc": [_sign_t(s_, "K1", "m1")], "bit": b}, "note": "bitflip"})
        for b in (bits if not quick else bits[::6]):
            extra.append({"entry": "PopVerify", "suite": "pop", "pks": [{"cls": "valid", "key": "K1"}], "msgs": [],
                          "sig": {"cls": "bitflip", "desc": [{"kind": "pop", "coef": 1, "suite": "pop", "key": "K1",
                                                              "msg": "nomsg", "j": 0}], "bit": b}, "note": "bitflip"})
    if focus in ("C01", "C02", "C03"):
        # the empty message, deterministically in every run and suite (the random message lengths reach it only sometimes)
        vk_ = lambda k: {"cls": "valid", "key": k}      # noqa: E731
        for s_ in ("basic", "aug", "pop"):
            if focus != "C03":
                extra.append({"entry": "Verify", "suite": s_, "pks": [vk_("K1")], "msgs": ["m1"], "empty_m1": 1,
                              "sig": {"cls": "valid", "desc": [_sign_t(s_, "K1", "m1")]}, "note": "canonical"})
                extra.append({"entry": "Verify", "suite": s_, "pks": [vk_("K1")], "msgs": ["m1"], "empty_m1": 1,
                              "sig": {"cls": "valid", "desc": [_sign_t(s_, "K1", "m2")]}, "note": "other_message"})
            else:
                extra.append({"entry": "AggregateVerify", "suite": s_, "pks": [vk_("K1"), vk_("K2")], "msgs": ["m1", "m2"],
                              "empty_m1": 1, "note": "canonical",
                              "sig": {"cls": "valid", "desc": [_sign_t(s_, "K1", "m1"), _sign_t(s_, "K2", "m2")]}})
    if focus in ("C02", "C03"):
        # messages that differ only beyond the first 64 KiB (m2 = m1 with the last byte changed, m3 = m1 truncated)
        vk_ = lambda k: {"cls": "valid", "key": k}      # noqa: E731
        for s_ in ("basic", "pop"):
            for other in ("m2", "m3"):
                if focus == "C02":
                    extra.append({"entry": "Verify", "suite": s_, "pks": [vk_("K1")], "msgs": ["m1"], "long_tail": 1,
                                  "sig": {"cls": "valid", "desc": [_sign_t(s_, "K1", other)]}, "note": "other_message"})
                else:
                    extra.append({"entry": "AggregateVerify", "suite": s_, "pks": [vk_("K1"), vk_("K2")], "msgs": ["m1", other],
                                  "long_tail": 1, "note": "substituted_message",
                                  "sig": {"cls": "valid", "desc": [_sign_t(s_, "K1", other), _sign_t(s_, "K2", "m1")]}})
    base = len(jobs)
    jobs += [(base + i, ctx.seed * 104729 + i, sc) for i, sc in enumerate(extra)]
    chains = []
    if focus in ("C04", "C03"):
        # history: a FastAggregateVerify whose aggregate key is the identity, then the identity key / signature
        # presented to every entry point in the same interpreter with the same concrete keys
        vk = lambda k: {"cls": "valid", "key": k}      # noqa: E731
        ident = {"cls": "identity", "key": "K1"}
        zero = {"cls": "valid", "desc": [{"kind": "zero", "coef": 1, "suite": "basic", "key": "K1", "msg": "nomsg", "j": 0}]}
        for rep in range(2 if quick else 10):
            ch = [{"entry": "FastAggregateVerify", "suite": "pop", "pks": [vk("K1"), vk("N1")], "msgs": ["m1"],
                   "sig": {"cls": "valid", "desc": [_sign_t("pop", "K1", "m1"), _sign_t("pop", "N1", "m1")]}, "note": "chain_cancel"}]
            for s_ in ("pop", "basic", "aug"):
                ch += [{"entry": "KeyValidate", "suite": s_, "pks": [ident], "msgs": [], "sig": zero, "note": "chain_identity_key"},
                       {"entry": "Verify", "suite": s_, "pks": [ident], "msgs": ["m1"], "sig": zero, "note": "chain_identity_key"},
                       {"entry": "AggregateVerify", "suite": s_, "pks": [ident, vk("K2")], "msgs": ["m1", "m2"],
                        "sig": {"cls": "valid", "desc": [_sign_t(s_, "K2", "m2")]}, "note": "chain_identity_key"}]
            ch += [{"entry": "PopVerify", "suite": "pop", "pks": [ident], "msgs": [], "sig": zero, "note": "chain_identity_key"},
                   {"entry": "FastAggregateVerify", "suite": "pop", "pks": [ident], "msgs": ["m1"], "sig": zero, "note": "chain_identity_key"},
                   {"entry": "AggregateVerify", "suite": "pop", "pks": [vk("K1"), vk("N1")], "msgs": ["m1", "m1"], "sig": zero,
                    "note": "chain_cancel_identity_sig"}]
            chains.append((10 ** 6 + 100 * rep, ctx.seed * 31 + rep, ch))
    sk_jobs, kg_jobs, agg_jobs, seq_jobs = [], [], [], []
    vseq_jobs = [(i, ctx.seed + 16000 + i) for i in range(4 if quick else 24)] if focus == "C02" else []
    if focus == "C01":
        reps = 1 if quick else 6
        k = 0
        for rep in range(reps):
            for cls in SK_CLASSES:
                for suite in ("basic", "aug", "pop"):
                    k += 1
                    sk_jobs.append((k * 17 + rep, ctx.seed + 5000 + k, cls, suite))
        for b in range(1, 255, 23 if quick else 3):          # every bit length across a run
            sk_jobs.append((b, ctx.seed + 9000 + b, "bits", ("basic", "aug", "pop")[b % 3]))
        for b in (4, 8, 16, 64, 128, 192, 200, 252, 254):      # all five patterns at nibble / word boundaries
            for rep in range(5):
                sk_jobs.append((b - 1, ctx.seed + 9500 + 10 * b + rep, "bits", ("basic", "aug", "pop")[(b + rep) % 3]))
        kg_jobs = [(i, ctx.seed + 12000 + i, ("basic", "aug", "pop")[i % 3]) for i in range(6 if quick else 60)]
        seq_jobs = [(i, ctx.seed + 13000 + i) for i in range(8 if quick else 80)]
    if focus == "C02":      # the canonical signature must be accepted also where its coordinates sit in boundary bands
        for i in range(6 if quick else 36):
            sk_jobs.append((i, ctx.seed + 15000 + i, ("bandsig", "bandsig", "bandpk")[i % 3], ("basic", "pop", "aug")[(i // 3 + i) % 3]))
    if focus == "C03":
        for i in range(16 if quick else 160):
            n = rng.choice([1, 2, 3, 4, 6])
            a = [[_sign_t("basic", rng.choice(["K1", "K2", "K3", "N1"]), rng.choice(["m1", "m2", "m3"]))] for _ in range(n)]
            kind = rng.choice(["perm", "perm", "regroup", "drop", "dup", "same", "empty"])
            b = list(a)
            if kind == "perm":
                rng.shuffle(b)
            elif kind == "drop" and n > 1:
                b = b[:-1]
            elif kind == "dup":
                b = b + [b[0]]
            elif kind == "empty":
                b = []
            agg_jobs.append((i, ctx.seed + 15000 + i, a, b, kind == "regroup"))
    ctx.log(f"bls: running {len(jobs)} scenarios ({len(chosen)} enumerated by TLC, {len(extra)} random), "
            f"{len(sk_jobs)} secret-key cases, {len(kg_jobs)} KeyGen cases, {len(agg_jobs)} Aggregate cases on the real library")
    with Pool(NCPU, initializer=_init_worker) as pool:
        r_run = pool.map_async(Guarded(_run_scenario), jobs, chunksize=1)
        r_sk = pool.map_async(Guarded(_run_sk), sk_jobs, chunksize=1)
        r_kg = pool.map_async(Guarded(_run_keygen), kg_jobs, chunksize=1)
        r_ag = pool.map_async(Guarded(_run_agg), agg_jobs, chunksize=1)
        r_sq = pool.map_async(Guarded(_run_seq), seq_jobs, chunksize=1)
        r_vs = pool.map_async(Guarded(_run_vseq), vseq_jobs, chunksize=1)
        r_ch = pool.map_async(Guarded(_run_chain), chains, chunksize=1)
        rows_run, rows_sk, rows_kg, rows_ag = r_run.get(), r_sk.get() + r_sq.get() + r_vs.get(), r_kg.get(), r_ag.get()
        rows_run = rows_run + [r for ch in r_ch.get() for r in ch]
    # (B) spec -> code: the returned boolean must be the one TLC predicted for the enumerated scenario
    nb = 0
    for row in rows_run:
        if "honest_error" in row:
            sc = row["sc"]
            ctx.violation(f"BlsHonest:{sc['suite']}:{sc['note']}",
                          f"producing the honest inputs of scenario '{sc['note']}' ({sc['suite']}): {row['honest_error']}",
                          {"scenario": sc})
            continue
        if "build_error" in row:
            nb += 1
            continue
        i = row["idx"]
        wide = row["sc"]["sig"].get("cls") == "wide_view" or any(p.get("cls") == "wide_view" for p in row["sc"]["pks"])
        if i in expect and ((row["raised"] and not wide) or bool(row["got"]) != bool(expect[i])):
            sc = row["sc"]
            ctx.violation(f"BlsReplay:{sc['entry']}:{sc['suite']}:{sc['note']}",
                          f"{sc['entry']} ({sc['suite']}, scenario '{sc['note']}', {len(sc['pks'])} key(s)) "
                          f"{'raised ' + row.get('raise_info', '') if row['raised'] else 'returned ' + str(bool(row['got']))}; "
                          f"BlsModel.tla predicts {expect[i]}",
                          {"scenario": sc, "inputs": row.get("inputs"), "expect": expect[i], "got": row["got"],
                           "raised": row["raised"]})
    ctx.note("scenarios_not_concretised", nb)
    if nb > max(3, len(rows_run) // 20):
        raise MachineryError(f"{nb} scenarios could not be concretised: "
                             f"{[r['build_error'] for r in rows_run if 'build_error' in r][:3]}")
    rows = [r for r in rows_run if "build_error" not in r] + rows_sk + rows_kg + rows_ag
    for r in rows:
        for k in ("idx", "inputs", "raise_info", "bitlen", "keygen"):
            if k in r and k not in ("bitlen",):
                r.pop(k, None)
        r.setdefault("exc", "")
    ctx.traces += len(chosen)
    ctx.add_cov("scenarios_run", len(rows_run) - nb)
    ctx.add_cov("scenarios_accepted_by_code", sum(1 for r in rows_run if r.get("got") == 1))
    ctx.add_cov("pairing_evaluations_observed", sum(len(r.get("pair", [])) for r in rows_run))
    ctx.add_cov("secret_key_cases", len(rows_sk) + len(rows_kg))
    for r in rows_run[:: max(1, len(rows_run) // 5)][:5]:
        ctx.sample({"entry": r["sc"]["entry"], "suite": r["sc"]["suite"], "scenario": r["sc"]["note"],
                    "keys": [(p["cls"], p["key"]) for p in r["sc"]["pks"]], "got": r["got"], "raised": r["raised"],
                    "pairings": len(r["pair"])})
    # (C) code -> spec: TLC evaluates the model on every recorded run
    keep_exc = [r.get("exc", "") for r in rows]
    tables.validate(ctx, "BlsTable", rows, invariants=["RowsOK"], name="BlsTable_" + focus,
                    tag=lambda r: f"bls:{r['op']}:{r.get('sc', {}).get('entry', r.get('cls', ''))}",
                    describe=lambda r: json.dumps({k: v for k, v in r.items() if k != "pair"})[:700],
                    result_keys=(), env={"MAXN": 2}, spec="TSpec")
