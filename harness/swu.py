"""Simplified SWU (C10): optimized_swu_G1/G2 as a private module copy with toy constants."""
from __future__ import annotations

import itertools
import random

from . import tables, toy
from .core import Ctx


def _f2(q):
    mul = lambda a, b: ((a[0] * b[0] - a[1] * b[1]) % q, (a[0] * b[1] + a[1] * b[0]) % q)  # noqa: E731
    return mul


def _pow(mul, one, a, e):
    r = one
    while e:
        if e & 1:
            r = mul(r, a)
        a = mul(a, a)
        e >>= 1
    return r


class Fld:
    """Tiny own arithmetic over GF(q) / GF(q^2) (i^2 = -1) used only to derive toy constants."""

    def __init__(self, q, d):
        self.q, self.d = q, d
        self.els = [tuple(t[::-1]) for t in itertools.product(range(q), repeat=d)]
        self.one = (1,) + (0,) * (d - 1)
        self.zero = (0,) * d

    def mul(self, a, b):
        q = self.q
        if self.d == 1:
            return (a[0] * b[0] % q,)
        return ((a[0] * b[0] - a[1] * b[1]) % q, (a[0] * b[1] + a[1] * b[0]) % q)

    def add(self, a, b):
        return tuple((x + y) % self.q for x, y in zip(a, b))

    def neg(self, a):
        return tuple((-x) % self.q for x in a)

    def inv(self, a):
        return _pow(self.mul, self.one, a, self.q ** self.d - 2)

    def sqrts(self, a):
        return [y for y in self.els if self.mul(y, y) == a]

    def is_sq(self, a):
        return bool(self.sqrts(a))


def find_instances():
    """Deterministic search for admissible toy SWU instances; premises are re-checked by TLC."""
    out = []
    for (q, d) in ((19, 1), (23, 1), (43, 1), (11, 2), (19, 2)):
        K = Fld(q, d)
        found = 0
        for A in K.els:
            if found >= (2 if d == 1 else 1) or A == K.zero:
                continue
            for B in K.els:
                if found >= (2 if d == 1 else 1):
                    break
                if B == K.zero or (d == 2 and (A[1] == 0 or B[1] == 0)):
                    continue
                g = lambda x: K.add(K.add(K.mul(K.mul(x, x), x), K.mul(A, x)), B)  # noqa: E731
                if any(g(x) == K.zero for x in K.els):
                    continue
                npts = 1 + sum(len(K.sqrts(g(x))) for x in K.els)
                if npts % 2 == 0:
                    continue
                for Z in K.els:
                    if Z == K.zero or K.is_sq(Z) or Z == K.neg(K.one):
                        continue
                    if d == 2 and Z[1] == 0:
                        continue
                    x0 = K.mul(B, K.inv(K.mul(Z, A)))
                    if not K.is_sq(g(x0)):
                        continue
                    out.append({"q": q, "d": d, "A": A, "B": B, "Z": Z})
                    found += 1
                    break
    return out


_mods = {}


def module(inst):
    key = (inst["q"], inst["d"], inst["A"], inst["B"], inst["Z"])
    if key in _mods:
        return _mods[key]
    q, d = inst["q"], inst["d"]
    K = Fld(q, d)
    FQ = toy.field_classes(q, 1, (0,), "opt")
    FQ2 = toy.field_classes(q, 2, (1, 0), "opt")
    m = toy.private_module("py_ecc/optimized_bls12_381/optimized_swu.py", "py_ecc.optimized_bls12_381")
    m.FQ, m.FQ2 = FQ, FQ2
    if d == 1:
        m.ISO_11_A, m.ISO_11_B, m.ISO_11_Z = FQ(inst["A"][0]), FQ(inst["B"][0]), FQ(inst["Z"][0])
        m.P_MINUS_3_DIV_4 = (q - 3) // 4
        z3 = K.mul(K.mul(inst["Z"], inst["Z"]), inst["Z"])
        m.SQRT_MINUS_11_CUBED = FQ(K.sqrts(K.neg(z3))[0][0])          # sqrt(-Z^3)
    else:
        m.ISO_3_A, m.ISO_3_B, m.ISO_3_Z = FQ2(list(inst["A"])), FQ2(list(inst["B"])), FQ2(list(inst["Z"]))
        m.P_MINUS_9_DIV_16 = (q * q - 9) // 16
        # one square root of each of 1, -1, i, -i (all eighth roots of unity up to sign)
        roots = [K.sqrts(v)[0] for v in ((1, 0), (q - 1, 0), (0, 1), (0, q - 1))]
        m.POSITIVE_EIGHTH_ROOTS_OF_UNITY = tuple(FQ2(list(r)) for r in roots)
        # etas: square roots of Z^3 / zeta for the four primitive eighth roots of unity zeta
        z3 = K.mul(K.mul(inst["Z"], inst["Z"]), inst["Z"])
        prim = [e for e in K.els if _pow(K.mul, K.one, e, 8) == K.one and _pow(K.mul, K.one, e, 4) != K.one]
        etas = []
        for zeta in prim:
            s = K.sqrts(K.mul(z3, K.inv(zeta)))
            if s:
                etas.append(s[0])
        m.ETAS = [FQ2(list(e)) for e in etas]
    _mods[key] = m
    return m


def rows_for(inst, si, us):
    m = module(inst)
    d = inst["d"]
    cls = m.FQ if d == 1 else m.FQ2
    fn = m.optimized_swu_G1 if d == 1 else m.optimized_swu_G2
    rows = []
    for u in us:
        r = {"s": si, "u": list(u)}
        try:
            out = fn(toy.mk(cls, d, list(u)))
            r["r"] = [toy.proj(c, d) for c in out]
        except Exception as e:  # noqa: BLE001
            r["r"] = f"EXC:{type(e).__name__}:{e}"[:100]
        rows.append(r)
    return rows


def toy_tables(ctx: Ctx):
    insts = find_instances()
    rows, claims = [], []
    for si, inst in enumerate(insts, start=1):
        K = Fld(inst["q"], inst["d"])
        lo = len(rows) + 1
        rows += rows_for(inst, si, K.els)
        claims.append({"s": si, "lo": lo, "hi": len(rows)})
    ctx.log(f"swu toy tables: {len(rows)} rows, every u of {len(insts)} toy instances")
    ctx.note("swu_instances", [{k: (list(v) if isinstance(v, tuple) else v) for k, v in i.items()} for i in insts])
    for r in rows[:: max(1, len(rows) // 4)][:4]:
        ctx.sample(r)
    ctx.exhaustive = True
    ij = [{"p": i["q"], "d": i["d"], "mc": [0] if i["d"] == 1 else [1, 0], "A": list(i["A"]), "B": list(i["B"]),
           "Z": list(i["Z"])} for i in insts]
    tables.validate(ctx, "SwuTable", rows, invariants=["InstancesOK", "ClaimsOK", "RowsOK"],
                    files={"INSTANCES": ij, "CLAIMS": claims},
                    tag=lambda r: f"swu:{insts[r['s'] - 1]['q']}^{insts[r['s'] - 1]['d']}",
                    describe=lambda r: f"{insts[r['s'] - 1]} {r}")


# ----------------------------------------------------------------------------- full size (BigNat, relational)
def big_rows(ctx: Ctx):
    """optimized_swu / iso_map / map_to_curve of the REAL module on boundary and random u, with witnesses."""
    from py_ecc.optimized_bls12_381 import optimized_swu as osw
    from py_ecc.optimized_bls12_381 import constants as oc
    from py_ecc.bls import hash_to_curve as h2c
    from py_ecc.fields import optimized_bls12_381_FQ as FQ, optimized_bls12_381_FQ2 as FQ2
    from py_ecc.optimized_bls12_381 import field_modulus as p
    from .constants import limbs
    from .grouptrace import f2_inv, f2_mul, f2_sqrt, f_inv
    rng = random.Random(ctx.seed + 83)
    quick = ctx.tier == "quick"

    class K1:
        d = 1
        zero, one = (0,), (1,)
        A, B, Z = (int(oc.ISO_11_A.n),), (int(oc.ISO_11_B.n),), (11,)
        xi = (p - 1,)
        mul = staticmethod(lambda a, b: (a[0] * b[0] % p,))
        inv = staticmethod(lambda a: (f_inv(p, a[0]),))

        @staticmethod
        def sqrt(a):
            y = pow(a[0], (p + 1) // 4, p)
            return (y,) if y * y % p == a[0] else None

    class K2:
        d = 2
        zero, one = (0, 0), (1, 0)
        A, B, Z = (0, 240), (1012, 1012), (p - 2, p - 1)
        xi = (1, 1)
        mul = staticmethod(lambda a, b: f2_mul(p, a, b))
        inv = staticmethod(lambda a: f2_inv(p, a))

        @staticmethod
        def sqrt(a):
            y = f2_sqrt(p, a)
            return y if y is not None and f2_mul(p, y, y) == a else None

    def add(a, b):
        return tuple((x + y) % p for x, y in zip(a, b))

    def neg(a):
        return tuple((-x) % p for x in a)

    def L(a):
        return [limbs(x) for x in a]

    rows = []
    for K, swu_fn, iso_fn, map_fn, cls in ((K1, osw.optimized_swu_G1, osw.iso_map_G1, h2c.map_to_curve_G1, FQ),
                                           (K2, osw.optimized_swu_G2, osw.iso_map_G2, h2c.map_to_curve_G2, FQ2)):
        d = K.d
        us = []
        if d == 1:
            us = [(0,), (1,), (p - 1,), ((p - 1) // 2,), ((p + 1) // 2,), (2,), (p - 2,)]
            # the roots of Z^2 u^4 + Z u^2: u^2 = -1/Z
            r = K.sqrt(((-f_inv(p, 11)) % p,))
            if r:
                us += [r, neg(r)]
        else:
            us = [(0, 0), (1, 0), (p - 1, 0), (0, 1), (0, p - 1), ((p - 1) // 2, 0), (0, (p + 1) // 2), (1, 1),
                  (rng.randrange(p), 0), (0, rng.randrange(p)), (0, 3), (3, 0), (0, (p - 1) // 2)]
            r = K.sqrt(neg(K.inv(K.Z)))
            if r:
                us += [r, neg(r)]
        us += [tuple(rng.randrange(p) for _ in range(d)) for _ in range(4 if quick else 40)]
        # exceptional points of the isogeny: u whose SWU image is a pole of the rational map (a kernel point: the
        # image is the identity) or a zero of its x-numerator (the image has x = 0).  Found by root finding on the
        # library's own coefficient tables - input generation only.
        try:
            from . import polyroots as pr
            Fl = pr.Fld(p, d)
            coef = oc.ISO_11_MAP_COEFFICIENTS if d == 1 else oc.ISO_3_MAP_COEFFICIENTS
            cfs = lambda x: tuple(int(c) for c in x.coeffs) if hasattr(x, "coeffs") else (int(getattr(x, "n", x)) % p,)   # noqa: E731
            exc_us = []
            for which in (1, 0):
                got = []
                for x0 in pr.roots(Fl, [cfs(c) for c in coef[which]], rng):
                    got += pr.swu_preimages(Fl, K.A, K.B, K.Z, x0)
                rng.shuffle(got)
                exc_us += got[:(2 if quick else 12)]
            us += exc_us
            ctx.add_cov(f"isogeny_exceptional_u_G{d}", len(exc_us))
        except Exception as e:  # noqa: BLE001 -- the tables no longer have this shape: the exceptional inputs are skipped
            ctx.note(f"isogeny_exceptional_u_G{d}_skipped", f"{type(e).__name__}: {e}"[:120])
        # u for which the projective denominator of the SWU output is exactly 1 (the image is then "affine" already):
        # -A (Z u^2 + Z^2 u^4) = 1, i.e. t^2 + t + 1/A = 0 for t = Z u^2
        try:
            from . import polyroots as pr
            Fl = pr.Fld(p, d)
            four = Fl.add(Fl.add(Fl.one, Fl.one), Fl.add(Fl.one, Fl.one))
            sdisc = Fl.sqrt(Fl.sub(Fl.one, Fl.mul(four, Fl.inv(K.A))))
            if sdisc is not None:
                for sg in (sdisc, Fl.neg(sdisc)):
                    t_ = Fl.mul(Fl.sub(sg, Fl.one), Fl.inv(Fl.add(Fl.one, Fl.one)))
                    r_ = Fl.sqrt(Fl.mul(t_, Fl.inv(K.Z)))
                    if r_ is not None:
                        us += [r_, Fl.neg(r_)]
        except Exception:  # noqa: BLE001 -- input generation only
            pass
        for u in us:
            row = {"op": "swu", "g": d, "u": L(u)}
            try:
                el = cls(u[0]) if d == 1 else cls(list(u))
                if d == 2 and len(rows) % 3 == 0:      # the same element built from FQ-OBJECT coefficients
                    el = cls([FQ(u[0]), FQ(u[1])])
                X, Y, D = swu_fn(el)
                Xc, Yc, Dc = (tuple(int(c) for c in (v.coeffs if d == 2 else (v.n,))) for v in (X, Y, D))
                row.update({"X": L(Xc), "Y": L(Yc), "D": L(Dc)})
                # witnesses (own arithmetic)
                zu2 = K.mul(K.Z, K.mul(u, u))
                tv1 = add(K.mul(zu2, zu2), zu2)
                if tv1 == K.zero:
                    x1 = K.mul(K.B, K.inv(K.mul(K.Z, K.A)))
                else:
                    x1 = K.mul(neg(K.mul(K.B, add(tv1, K.one))), K.inv(K.mul(K.A, tv1)))
                gx1 = add(add(K.mul(K.mul(x1, x1), x1), K.mul(K.A, x1)), K.B)
                s = K.sqrt(gx1)
                sq = 1
                if s is None:
                    sq = 0
                    s = K.sqrt(K.mul(K.xi, gx1)) or K.zero
                if Dc == K.zero:
                    xo, yo = K.zero, K.zero
                else:
                    di = K.inv(Dc)
                    xo, yo = K.mul(Xc, di), K.mul(Yc, di)
                row.update({"x1": L(x1), "s": L(s), "sq": sq, "xo": L(xo), "yo": L(yo)})
                rows.append(row)
                # isogeny image and the composed map
                outs = [("iso_map", iso_fn(X, Y, D)), ("map_to_curve", map_fn(el))]
                if Dc != K.zero:        # the same point handed over in affine form (z = 1)
                    mk_ = (lambda c_: cls(c_[0])) if d == 1 else (lambda c_: cls(list(c_)))
                    outs.append(("iso_map_affine", iso_fn(mk_(xo), mk_(yo), mk_(K.one))))
                for name, pt in outs:
                    c = [tuple(int(t) for t in (v.coeffs if d == 2 else (v.n,))) for v in pt]
                    iso_row = {"op": "iso", "g": d, "X": L(c[0]), "Y": L(c[1]), "Z": L(c[2]), "fn": name, "u": L(u)}
                    if c[2] == K.zero:          # the identity: the spec needs the SWU image to decide whether that is right
                        iso_row["swu"] = {k: v for k, v in row.items() if k != "op"}
                    rows.append(iso_row)
            except Exception as e:  # noqa: BLE001
                row["X"] = f"EXC:{type(e).__name__}:{e}"[:100]
                rows.append(row)
    # homomorphism of the isogenies on pairs of distinct SWU images
    from py_ecc import optimized_bls12_381 as ob
    for K, swu_fn, iso_fn, cls in ((K1, osw.optimized_swu_G1, osw.iso_map_G1, FQ), (K2, osw.optimized_swu_G2, osw.iso_map_G2, FQ2)):
        d = K.d
        for _ in range(3 if quick else 20):
            try:
                u1 = tuple(rng.randrange(p) for _ in range(d))
                u2 = tuple(rng.randrange(p) for _ in range(d))
                mk = (lambda c: cls(c[0])) if d == 1 else (lambda c: cls(list(c)))
                Pp, Qq = swu_fn(mk(u1)), swu_fn(mk(u2))
                lhs = iso_fn(*ob.add(Pp, Qq))
                rhs = ob.add(iso_fn(*Pp), iso_fn(*Qq))

                def affc(pt):
                    cs_ = [tuple(int(t) for t in (v.coeffs if d == 2 else (v.n,))) for v in pt]
                    zi = K.inv(cs_[2])
                    return K.mul(cs_[0], zi), K.mul(cs_[1], zi)
                (x1_, y1_), (x2_, y2_) = affc(lhs), affc(rhs)
                rows.append({"op": "isohom", "g": d, "X": L(x1_), "Y": L(y1_), "X2": L(x2_), "Y2": L(y2_)})
            except Exception as e:  # noqa: BLE001
                rows.append({"op": "isohom", "g": d, "X": f"EXC:{type(e).__name__}:{e}"[:100]})
    params = {"A1": limbs(int(oc.ISO_11_A.n)), "B1": limbs(int(oc.ISO_11_B.n))}
    return rows, params


def big_tables(ctx: Ctx):
    rows, params = big_rows(ctx)
    ctx.log(f"swu full size: {len(rows)} rows (optimized_swu / iso_map / map_to_curve of the real module)")
    ctx.sample({"full_size_row": {k: (v if not isinstance(v, list) else "limbs") for k, v in rows[0].items()}})
    ctx.add_cov("full_size_swu_rows", sum(1 for r in rows if r["op"] == "swu"))
    ctx.add_cov("full_size_swu_nonsquare_branch", sum(1 for r in rows if r["op"] == "swu" and r.get("sq") == 0))
    tables.validate(ctx, "SwuBig", rows, invariants=["PremisesOK", "RowsOK"], files={"PARAMS": [params]},
                    tag=lambda r: f"swubig:{r['op']}:G{r['g']}", result_keys=("X",),
                    describe=lambda r: f"{r['op']} G{r['g']} u={r.get('u')}")
