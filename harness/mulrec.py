"""Step level of `multiply` (growth of C07 / C18): (A) MulRec.tla - the recursive double-and-add as a step machine over
an abstract cyclic group, model-checked for every operand and scalar of a range; (C) the nested calls of the real
functions recorded with sys.setprofile on toy curves, validated by MulRecTrace.tla."""
from __future__ import annotations

import importlib
import random
import sys

from . import curves, tables
from .core import Ctx, limited


def mc(ctx: Ctx, kinds=("lsb", "msb")):
    for kind in kinds:
        for m in ((7, 12) if ctx.tier == "quick" else (7, 12, 31)):
            nmax = 70 if ctx.tier == "quick" else 300
            mod = ("---- MODULE MC_MulRec ----\nEXTENDS MulRec\n"
                   f"cM == {m}\ncNMin == {'0 - ' + str(2 * m + 3) if kind == 'msb' else '0'}\ncNMax == {nmax}\n"
                   f"cKind == \"{kind}\"\n====\n")
            cfg = ("SPECIFICATION Spec\nCONSTANT M <- cM\nCONSTANT NMin <- cNMin\nCONSTANT NMax <- cNMax\n"
                   "CONSTANT Kind <- cKind\nINVARIANT DownInv\nINVARIANT UpInv\nINVARIANT ResultOK\nINVARIANT Depth\n"
                   "PROPERTY Terminates\n")
            res = ctx.tlc("MC_MulRec", cfg, extra={"MC_MulRec.tla": mod}, workers=4, name=f"MulRec_{kind}_{m}", quiet=True)
            for v in res.violations:
                ctx.violation(f"MulRec:{kind}:{v['name']}", f"MulRec.tla ({kind}, M = {m}): {v['name']} fails",
                              {"trace": v["trace"][-2:]})
            ctx.log(f"MulRec {kind} M={m}: {res.distinct} states, {len(res.violations)} violation(s)")


def record(fn, code, argnames, *args):
    """Run fn(*args); return (result, calls) with one entry per activation of `code` in call order."""
    calls, stack = [], []

    def prof(frame, event, arg):
        if frame.f_code is code:
            if event == "call":
                loc = frame.f_locals
                calls.append({"P": loc.get(argnames[0]), "n": loc.get(argnames[1]), "r": None})
                stack.append(len(calls) - 1)
            elif event == "return" and stack:
                calls[stack.pop()]["r"] = arg
    old = sys.getprofile()
    sys.setprofile(prof)
    try:
        res = fn(*args)
    finally:
        sys.setprofile(old)
    return res, calls


def trace_rows(ctx: Ctx, only_secp=False):
    rng = random.Random(ctx.seed + 401)
    quick = ctx.tier == "quick"
    rows = []
    names = ["bnE7b2", "blsE19b4", "blsT19b4", "E13b4"] if quick else ["bnE7b2", "blsE19b4", "blsE19b10", "bnT7b2", "blsT19b4", "E13b4", "E31b11"]
    if not only_secp:
        for cname in names:
            c = curves.CURVES[cname]
            order = c["order"]
            pts = curves.curve_points(cname)
            for mname in curves.MODS:
                curve_mod, _, fam, _ = curves.MODS[mname]
                cm = importlib.import_module(curve_mod)
                cd = curves.Codec(fam, c["f"])
                p, d, _ = curves.FIELDS[c["f"]]
                for _ in range(2 if quick else 8):
                    P = rng.choice(pts)
                    n = rng.choice([0, 1, 2, 3, order - 1, order, order + 1, rng.randrange(2, 5000), rng.getrandbits(20)])
                    raw = [list(P[0]), list(P[1])]
                    if fam == "opt":
                        lam = [rng.randrange(1, p)] + [rng.randrange(p) for _ in range(d - 1)]
                        raw = curves.scale(raw, lam, p, d)
                    row = {"m": mname, "c": curves.CIDX[cname], "rep": "aff" if fam == "ref" else "proj", "kind": "lsb", "calls": []}
                    try:
                        _, calls = limited(lambda: record(cm.multiply, cm.multiply.__code__, ("pt", "n"), cd.point(raw), n), 60)
                        for e in calls:
                            row["calls"].append({"P": cd.proj(e["P"]), "n": int(e["n"]), "r": cd.proj(e["r"])})
                        if any(isinstance(e["P"], str) or isinstance(e["r"], str) for e in row["calls"]):
                            raise ValueError("projection failed")
                    except RecursionError:
                        row["exc"] = "EXC:RecursionError"
                    except Exception as ex:  # noqa: BLE001
                        row["exc"] = f"EXC:{type(ex).__name__}:{ex}"[:120]
                    if row.get("exc"):
                        row["calls"] = []
                    rows.append(row)
    for cname in ("secp43", "secp67"):
        m = curves.secp_module(cname)
        N, p = m.N, m.P
        pts = [(P[0][0], P[1][0]) for P in curves.curve_points(cname)]
        for _ in range(6 if quick else 30):
            P = rng.choice(pts + [(0, 0)])
            n = rng.choice([0, 1, 2, N - 1, N, N + 1, 2 * N + 5, -1, -N - 2, rng.randrange(2, 10 ** 6), -rng.randrange(2, 10 ** 6)])
            z = rng.randrange(1, p)
            jac = (P[0] * z * z % p, P[1] * z ** 3 % p, z) if P != (0, 0) else (0, 0, 1)
            row = {"m": "secp256k1", "c": curves.CIDX[cname], "rep": "jac", "kind": "msb", "calls": []}
            try:
                _, calls = limited(lambda: record(m.jacobian_multiply, m.jacobian_multiply.__code__, ("a", "n"), jac, n), 60)
                for e in calls:
                    row["calls"].append({"P": [[int(k)] for k in e["P"]], "n": int(e["n"]), "r": [[int(k)] for k in e["r"]]})
            except RecursionError:
                row["exc"] = "EXC:RecursionError"
            except Exception as ex:  # noqa: BLE001
                row["exc"] = f"EXC:{type(ex).__name__}:{ex}"[:120]
            if row.get("exc"):
                row["calls"] = []
            rows.append(row)
    return rows


def checks(ctx: Ctx, only_secp=False):
    mc(ctx, kinds=("msb",) if only_secp else ("lsb", "msb"))
    rows = trace_rows(ctx, only_secp=only_secp)
    ncalls = sum(len(r["calls"]) for r in rows)
    ctx.log(f"multiply call trees: {len(rows)} outermost calls, {ncalls} nested calls recorded")
    ctx.add_cov("multiply_nested_calls", ncalls)
    names = list(curves.CURVES)
    files = {"FIELDS": curves.spec_fields(), "CURVES": curves.spec_curves()}
    tables.validate(ctx, "MulRecTrace", rows, invariants=["RowsOK"], spec="TSpec", result_keys=(), files=files,
                    tag=lambda r: f"mulrec:{r['m']}:{names[r['c'] - 1]}", describe=lambda r: f"{names[r['c'] - 1]} {str(r)[:500]}")
    d = ctx.tmp / "tbl_MulRecTrace"
    good = [r for r in rows if not r.get("exc")]
    tables.write_ndjson(d / "model.ndjson", good)
    res = ctx.tlc("MulRecTrace", "SPECIFICATION TSpec\nINVARIANT ModelOK\n", cont=True, name="MulRecModel",
                  env={"TABLE": str(d / "model.ndjson"), "FIELDS": str(d / "FIELDS.ndjson"), "CURVES": str(d / "CURVES.ndjson")})
    ctx.note("multiply_call_tree_is_modelled_recursion", not res.violations)
    if res.violations:
        ctx.log(f"multiply call trees: {len(res.violations)} differ from MulRec.tla's recursion (reported, not a violation)")
