"""Hash layer (C15, C16): expand_message_xmd / hash_to_field / HKDF / KeyGen of the real code run
with toy hash functions TLC can compute, and with recording wrappers around hashlib."""
from __future__ import annotations

import hashlib
import hmac as _hmac
import random

from . import tables, toy
from .core import Ctx


# --------------------------------------------------------------------------- toy functions (mirrors of Xmd.tla / Hkdf.tla)
def _acc(m, s):
    a = 1
    for x in s:
        a = (a * 31 + x + 7) % m
    return a


def toy_hash_factory(b, s):
    class ToyHash:
        digest_size = b
        block_size = s
        name = f"toy{b}"

        def __init__(self, data=b""):
            self._buf = bytes(data)

        def update(self, data):
            self._buf += bytes(data)

        def copy(self):
            return ToyHash(self._buf)

        def digest(self):
            if b == 1:
                return bytes([_acc(251, self._buf)])
            return _acc(65521, self._buf).to_bytes(2, "big")
    return ToyHash


def toy_mac(key, msg):
    h1 = _acc(65521, bytes(key) + b"\x5c" + bytes(msg))
    h2 = _acc(251, bytes(msg) + b"\x36" + bytes(key))
    return bytes((h1 * j + h2 + (h1 // 256) * (j % 3)) % 256 for j in range(1, 33))


def toy_salt(data):
    a = _acc(65521, bytes(data))
    return bytes((a * (j + 1) + j) % 256 for j in range(1, 33))


class _MacObject:
    """The object API of hmac.HMAC (update / copy / digest / hexdigest) over a function mac(key, message)."""

    def __init__(self, mac, key, msg=None):
        self._mac, self._key, self._buf = mac, bytes(key), bytes(msg or b"")

    def update(self, data):
        self._buf += bytes(data)

    def copy(self):
        return _MacObject(self._mac, self._key, self._buf)

    def digest(self):
        return self._mac(self._key, self._buf)

    def hexdigest(self):
        return self.digest().hex()


class ToyHmacModule:
    """Stands in for the `hmac` module global of a private copy of py_ecc.bls.hash."""

    @staticmethod
    def new(key, msg=None, digestmod=None):
        return _MacObject(toy_mac, key, msg)


class RecHmacModule:
    def __init__(self):
        self.g = []

    def new(self, key, msg=None, digestmod=None):
        rec = self

        def mac(k, m):
            out = _hmac.new(bytes(k), bytes(m), digestmod).digest()
            rec.g.append({"key": list(k), "msg": list(m), "out": list(out)})
            return out
        return _MacObject(mac, key, msg)


def recording_hash(fn):
    """A hashlib constructor wrapped so that every digest it produces is recorded (input, output)."""
    class Rec:
        g = []

        def __init__(self, data=b"", _h=None):
            self._buf = bytes(data)

        @property
        def digest_size(self):
            return fn().digest_size

        @property
        def block_size(self):
            return fn().block_size

        def update(self, data):
            self._buf += bytes(data)

        def copy(self):
            return Rec(self._buf)

        def digest(self):
            out = fn(self._buf).digest()
            Rec.g.append({"in": list(self._buf), "out": list(out)})
            return out
    return Rec


def _call(fn):
    try:
        return 0, fn()
    except Exception:  # noqa: BLE001 -- the property only asks that the call is refused by raising
        return 1, None


# --------------------------------------------------------------------------- C15
def xmd_rows(ctx: Ctx):
    from py_ecc.bls import hash as H
    rng = random.Random(ctx.seed + 61)
    quick = ctx.tier == "quick"
    rows = []
    # (1) toy hashes: complete small-input table
    for (b, s) in ((1, 2), (2, 4)):
        th = toy_hash_factory(b, s)
        Hd = {"kind": "toy", "b": b, "s": s}
        msgs = [b"", b"\x00", b"\x01", b"\x00\x00", b"\x01\x00", b"\x00\x01\x02", bytes(range(7))]
        dsts = [b"", b"\x07", b"\x07\x07", b"\x09" * 254, b"\x09" * 255, b"\x09" * 256, b"QUUX-V01-CS02"]
        lens = list(range(0, 3 * b + 2)) + [31, 32, 33, 64, 255 * b - 1, 255 * b, 255 * b + 1, 65535, 65536]
        if not quick:
            lens += list(range(3 * b + 2, 255 * b, 7))
        for m in msgs:
            for d in dsts:
                for ln in lens:
                    raised, out = _call(lambda: H.expand_message_xmd(m, d, ln, th))
                    rows.append({"op": "xmd", "H": Hd, "msg": list(m), "dst": list(d), "len": ln,
                                 "raised": raised, "r": list(out) if out is not None else []})
    # (2) real hashes through the recording wrapper
    fns = [("sha256", hashlib.sha256), ("sha512", hashlib.sha512), ("sha384", hashlib.sha384),
           ("sha3_256", hashlib.sha3_256), ("blake2b", hashlib.blake2b), ("sha224", hashlib.sha224),
           ("sha1", hashlib.sha1), ("blake2s", hashlib.blake2s)]
    for name, fn in fns:
        b, s = fn().digest_size, fn().block_size
        mlens = [0, 1, s - 10, s - 9, s - 1, s, s + 1] + ([2 * s, 1000] if not quick else [200])
        dlens = [0, 1, 16, 254, 255, 256]
        lens = [0, 1, b - 1, b, b + 1, 64, 2 * b + 3, 128, 255 * b, 255 * b + 1, 65535, 65536]
        combos = [(ml, dl, ln) for ml in mlens for dl in dlens for ln in lens]
        rng.shuffle(combos)
        keep = [c for c in combos if c[2] in (255 * b, 255 * b + 1, 65535, 65536) or c[1] >= 254][:14 if quick else 60]
        keep += combos[:30 if quick else 250]
        for (ml, dl, ln) in keep:
            m, d = rng.randbytes(max(ml, 0)), rng.randbytes(dl)
            R = recording_hash(fn)
            R.g = []
            raised, out = _call(lambda: H.expand_message_xmd(m, d, ln, R))
            rows.append({"op": "xmd", "H": {"kind": "graph", "b": b, "s": s, "g": R.g, "name": name},
                         "msg": list(m), "dst": list(d), "len": ln, "raised": raised,
                         "r": list(out) if out is not None else []})
    # a message beyond 64 KiB (twice: whatever is kept between calls must not matter)
    for rep in range(2):
        fn = fns[0][1]
        R = recording_hash(fn)
        R.g = []
        m, d = rng.randbytes(66000 + rep), b"QUUX-V01-CS02-long"
        raised, out = _call(lambda: H.expand_message_xmd(m, d, 48, R))
        rows.append({"op": "xmd", "H": {"kind": "graph", "b": fn().digest_size, "s": fn().block_size, "g": R.g, "name": fns[0][0]},
                     "msg": list(m), "dst": list(d), "len": 48, "raised": raised, "r": list(out) if out is not None else []})
    # one interpreter, different hashes with equal block size back to back (state kept between calls)
    for (n1, f1), (n2, f2) in ((fns[1], fns[2]), (fns[0], fns[7]), (fns[2], fns[4])):
        for fn, name in ((f1, n1), (f2, n2), (f1, n1)):
            R = recording_hash(fn)
            R.g = []
            m, d = b"abc", b"QUUX-V01-CS02-with-expander"
            raised, out = _call(lambda: H.expand_message_xmd(m, d, 40, R))
            rows.append({"op": "xmd", "H": {"kind": "graph", "b": fn().digest_size, "s": fn().block_size,
                                            "g": R.g, "name": name},
                         "msg": list(m), "dst": list(d), "len": 40, "raised": raised,
                         "r": list(out) if out is not None else []})
    return rows


def h2f_rows(ctx: Ctx):
    """hash_to_field_FQ / FQ2 of a private hash_to_curve copy with a small field modulus."""
    rng = random.Random(ctx.seed + 67)
    rows = []
    for p in (19, 251, 65521, 8388593):
        m = toy.private_module("py_ecc/bls/hash_to_curve.py", "py_ecc.bls")
        FQ = toy.field_classes(p, 1, (0,), "opt")
        FQ2 = toy.field_classes(p, 2, (1, 0), "opt") if p % 4 == 3 else toy.field_classes(p, 2, (-3 % p, 0), "opt")
        m.field_modulus, m.FQ, m.FQ2 = p, FQ, FQ2
        # (count, degree, hash, tag length or None = short random tag): all counts, then the tag-length boundary
        plan = [(count, mdeg, hk, None) for count in range(1, 9) for mdeg in (1, 2) for hk in ("toy", "sha256", "sha512")]
        plan += [(2, mdeg, hk, dl) for mdeg in (1, 2) for hk in ("toy", "sha256") for dl in (0, 254, 255, 256, 300)]
        for (count, mdeg, hk, dl) in plan:
            for _once in (0,):
                for _once2 in (0,):
                    msg, dst = rng.randbytes(rng.randrange(0, 40)), rng.randbytes(rng.randrange(0, 30) if dl is None else dl)
                    if hk == "toy":
                        hf = toy_hash_factory(2, 4)
                        Hd = {"kind": "toy", "b": 2, "s": 4}
                    else:
                        fn = getattr(hashlib, hk)
                        hf = recording_hash(fn)
                        hf.g = []
                        Hd = {"kind": "graph", "b": fn().digest_size, "s": fn().block_size, "g": hf.g}
                    f = m.hash_to_field_FQ if mdeg == 1 else m.hash_to_field_FQ2
                    raised, out = _call(lambda: f(msg, count, dst, hf))
                    if out is not None:
                        res = [[int(e.n)] if mdeg == 1 else [int(c) for c in e.coeffs] for e in out]
                    else:
                        res = []
                    rows.append({"op": "h2f", "H": Hd, "msg": list(msg), "dst": list(dst), "count": count,
                                 "m": mdeg, "p": p, "raised": raised, "r": res})
    return rows


def c15(ctx: Ctx):
    cfg = "SPECIFICATION Spec\nINVARIANT Inv\n"
    res = ctx.tlc("MC_Xmd", cfg, name="MC_Xmd")
    for v in res.violations:
        ctx.violation(f"MC_Xmd:{v['name']}", f"Xmd.tla: {v['name']} fails (specification error)",
                      {"trace": v["trace"][-1:]})
    rows = xmd_rows(ctx) + h2f_rows(ctx)
    ctx.log(f"xmd / hash_to_field: {len(rows)} calls of the real functions "
            f"({sum(1 for r in rows if r['H']['kind'] == 'toy')} with toy hashes, "
            f"{sum(1 for r in rows if r['raised'])} refused)")
    for r in rows[:: max(1, len(rows) // 5)][:5]:
        ctx.sample({"op": r["op"], "hash": r["H"].get("name", r["H"]["kind"]), "msg_len": len(r["msg"]),
                    "dst_len": len(r["dst"]), "len": r.get("len", r.get("count")), "raised": r["raised"],
                    "out_prefix": bytes(r["r"][:8]).hex() if r["op"] == "xmd" else r["r"][:1]})
    ctx.add_cov("rows_refused", sum(1 for r in rows if r["raised"]))
    ctx.add_cov("hash_events_recorded", sum(len(r["H"].get("g", [])) for r in rows))
    tables.validate(ctx, "XmdTable", rows, invariants=["RowsOK"], tag=lambda r: f"{r['op']}:{r['H'].get('name', r['H']['kind'])}",
                    describe=lambda r: str({k: (v if k not in ("H", "msg", "dst", "r") else
                                                (bytes(v).hex()[:80] if isinstance(v, list) and k != "r" else str(v)[:120]))
                                            for k, v in r.items()}))


# --------------------------------------------------------------------------- C16
def hkdf_rows(ctx: Ctx):
    rng = random.Random(ctx.seed + 71)
    quick = ctx.tier == "quick"
    rows = []
    mt = toy.private_module("py_ecc/bls/hash.py", "py_ecc.bls")
    mt.hmac = ToyHmacModule
    Mt = {"kind": "toy"}
    small = [b"", b"\x00", b"\x01\x02", b"\xff" * 3]
    for salt in small:
        for ikm in small:
            rows.append({"op": "ext", "M": Mt, "salt": list(salt), "ikm": list(ikm),
                         "r": list(mt.hkdf_extract(salt, ikm))})
    Ls = list(range(0, 100)) + [255 * 32 - 33, 255 * 32 - 32, 255 * 32 - 31, 255 * 32 - 1, 255 * 32]
    if not quick:
        Ls += list(range(100, 8160, 37))
    for prk in (b"", b"\x07" * 32):
        for info in (b"", b"\x00", b"ab"):
            for L in Ls:
                raised, out = _call(lambda: mt.hkdf_expand(prk, info, L))
                rows.append({"op": "exp", "M": Mt, "prk": list(prk), "info": list(info), "L": L,
                             "r": list(out) if out is not None else "EXC:raised"})
    # real HMAC-SHA256 through the recorder
    mr = toy.private_module("py_ecc/bls/hash.py", "py_ecc.bls")
    rec = RecHmacModule()
    mr.hmac = rec
    lens = [0, 1, 31, 32, 33, 55, 56, 63, 64, 65, 80, 127, 128, 129, 300]
    for sl in lens:
        for il in ([0, 1, 32, 64, 65, 300] if quick else lens):
            salt, ikm = rng.randbytes(sl), rng.randbytes(il)
            rec.g = []
            out = mr.hkdf_extract(bytearray(salt), bytearray(ikm)) if (sl + il) % 3 == 0 else mr.hkdf_extract(salt, ikm)
            rows.append({"op": "ext", "M": {"kind": "graph", "g": rec.g}, "salt": list(salt), "ikm": list(ikm),
                         "r": list(out)})
    for L in [0, 1, 31, 32, 33, 42, 48, 82, 8128, 8129, 8159, 8160] + ([] if quick else list(range(100, 8160, 403))):
        for il in (0, 1, 64, 300):
            prk, info = rng.randbytes(32), rng.randbytes(il)
            rec.g = []
            # the helpers are typed Union[bytes, bytearray]: one case in three hands over bytearrays
            as_ba = (L + il) % 3 == 0
            prk_a, info_a = (bytearray(prk), bytearray(info)) if as_ba else (prk, info)
            raised, out = _call(lambda: mr.hkdf_expand(prk_a, info_a, L))
            rows.append({"op": "exp", "M": {"kind": "graph", "g": rec.g}, "prk": list(prk), "info": list(info),
                         "L": L, "r": list(out) if out is not None else "EXC:raised"})
    return rows


def keygen_rows(ctx: Ctx):
    """KeyGen of a private ciphersuites copy: toy group orders make the retry path reachable."""
    rng = random.Random(ctx.seed + 73)
    quick = ctx.tier == "quick"
    rows = []
    for order in (2, 3, 7, 251, 65521, 8388593):
        for kind in ("toy", "real"):
            hm = toy.private_module("py_ecc/bls/hash.py", "py_ecc.bls")
            cs = toy.private_module("py_ecc/bls/ciphersuites.py", "py_ecc.bls")
            cs.curve_order = order
            if kind == "toy":
                hm.hmac = ToyHmacModule

                class SaltH:
                    def __init__(self, data=b""):
                        self.d = bytes(data)

                    def digest(self):
                        return toy_salt(self.d)
                salt_fn = SaltH
            else:
                rec = RecHmacModule()
                hm.hmac = rec
                salt_fn = recording_hash(hashlib.sha256)
            cs.hkdf_extract, cs.hkdf_expand = hm.hkdf_extract, hm.hkdf_expand
            for suite in ("G2Basic", "G2MessageAugmentation", "G2ProofOfPossession"):
                S = getattr(cs, suite)
                S.xmd_hash_function = salt_fn
                n = (6 if quick else 40) if suite == "G2Basic" else 2
                for t in range(n):
                    ikm = rng.randbytes(rng.choice([0, 1, 31, 32, 33, 64, 128]))
                    if t % 3 == 1:
                        ikm = ikm + b"\x00"          # the appended zero byte must not depend on how IKM ends
                    elif t % 3 == 2 and suite == "G2Basic":
                        ikm = b"\x00" * (1 + t)
                    info = rng.randbytes(rng.choice([0, 0, 1, 2, 16, 64]))
                    if kind == "real":
                        rec.g = []
                        salt_fn.g = []
                    # one case in three hands over mutable buffers (the SAME objects in both calls)
                    ikm_a, info_a = (bytearray(ikm), bytearray(info)) if t % 3 == 0 else (ikm, info)
                    raised, sk = _call(lambda: S.KeyGen(ikm_a, info_a) if (t % 2 or t % 3 == 0) else
                                       (S.KeyGen(ikm_a) if not info else S.KeyGen(ikm_a, info_a)))
                    if kind == "real":
                        M = {"kind": "graph", "g": list(rec.g)}
                        Sd = {"kind": "graph", "g": list(salt_fn.g)}
                        tries = len(salt_fn.g)
                    else:
                        M, Sd, tries = {"kind": "toy"}, {"kind": "toy"}, 0
                    raised2, sk2 = _call(lambda: S.KeyGen(ikm_a, info_a))
                    same = (not raised2 and sk2 == sk)     # determinism (C16); mutation of the buffers is C20's business
                    rows.append({"op": "kg", "M": M, "S": Sd, "ikm": list(ikm), "info": list(info), "ord": order,
                                 "r": sk if (not raised and isinstance(sk, int)) else "EXC:raised",
                                 "again": 1 if same else 0, "tries": tries})
    return rows


def keygen_big_rows(ctx: Ctx):
    """KeyGen of the three real suites at the real 255-bit group order, HMAC / SHA-256 recorded."""
    from .constants import limbs
    rng = random.Random(ctx.seed + 79)
    rows = []
    hm = toy.private_module("py_ecc/bls/hash.py", "py_ecc.bls")
    cs = toy.private_module("py_ecc/bls/ciphersuites.py", "py_ecc.bls")
    rec = RecHmacModule()
    hm.hmac = rec
    cs.hkdf_extract, cs.hkdf_expand = hm.hkdf_extract, hm.hkdf_expand
    salt_fn = recording_hash(hashlib.sha256)
    for suite in ("G2Basic", "G2MessageAugmentation", "G2ProofOfPossession"):
        S = getattr(cs, suite)
        S.xmd_hash_function = salt_fn
        for t in range(4 if ctx.tier == "quick" else 30):
            ikm = rng.randbytes(rng.choice([0, 1, 31, 32, 33, 64, 128]))
            ikm = [ikm, ikm + b"\x00", b"\x00" + ikm, b"\x00" * 32, ikm + b"\x00\x00"][t % 5]      # zero bytes at the ends
            info = rng.randbytes(rng.choice([0, 0, 1, 16, 64]))
            rec.g = []
            salt_fn.g = []
            raised, sk = _call(lambda: S.KeyGen(ikm, info) if info else S.KeyGen(ikm))
            M, Sd = {"kind": "graph", "g": list(rec.g)}, {"kind": "graph", "g": list(salt_fn.g)}
            raised2, sk2 = _call(lambda: S.KeyGen(ikm, info))
            rows.append({"M": M, "S": Sd, "ikm": list(ikm), "info": list(info),
                         "r": limbs(sk) if (not raised and isinstance(sk, int) and sk >= 0) else "EXC:raised",
                         "again": 1 if (not raised2 and sk2 == sk) else 0})
    return rows


def c16(ctx: Ctx):
    big = keygen_big_rows(ctx)
    tables.validate(ctx, "HkdfBig", big, invariants=["RowsOK"], tag=lambda r: "keygen_big",
                    describe=lambda r: f"KeyGen ikm={bytes(r['ikm']).hex()[:40]} info={bytes(r['info']).hex()[:40]} sk={r['r']}")
    rows = hkdf_rows(ctx) + keygen_rows(ctx)
    ctx.log(f"hkdf / keygen: {len(rows)} calls of the real functions")
    for r in rows[:: max(1, len(rows) // 5)][:5]:
        ctx.sample({k: (v if not isinstance(v, (list, dict)) else (bytes(v).hex()[:40] if isinstance(v, list) else v.get("kind")))
                    for k, v in r.items()})
    ctx.add_cov("keygen_rows", sum(1 for r in rows if r["op"] == "kg"))
    ctx.add_cov("keygen_rows_with_retry_real_sha256", sum(1 for r in rows if r["op"] == "kg" and r["tries"] > 1))
    tables.validate(ctx, "HkdfTable", rows, invariants=["RowsOK", "RetryCount"],
                    tag=lambda r: f"{r['op']}:{r['M']['kind']}",
                    describe=lambda r: str({k: (str(v)[:100]) for k, v in r.items()}))
