"""hash_to_G1 / hash_to_G2 / hash_to_field at full size: recorded component calls (H2cTable.tla)."""
from __future__ import annotations

import hashlib
import random

from . import tables, toy
from .constants import limbs
from .core import Ctx
from .hashing import recording_hash


def _coeffs(x):
    return tuple(int(c) for c in x.coeffs) if hasattr(x, "coeffs") else (int(x.n),)


class Interner:
    def __init__(self):
        self.ids = {}

    def __call__(self, v):
        if isinstance(v, tuple) and v and not isinstance(v[0], int):      # a point: tuple of field elements
            key = ("pt",) + tuple(_coeffs(c) for c in v)
        else:
            key = ("el",) + _coeffs(v)
        if key not in self.ids:
            self.ids[key] = len(self.ids) + 1
        return self.ids[key]


def rows(ctx: Ctx):
    from py_ecc.bls import g2_primitives as g2p
    rng = random.Random(ctx.seed + 97)
    quick = ctx.tier == "quick"
    out = []
    fns = [("sha256", hashlib.sha256), ("sha384", hashlib.sha384), ("sha512", hashlib.sha512),
           ("sha3_256", hashlib.sha3_256), ("sha224", hashlib.sha224)]
    msgs = [b"", b"abc", b"abcdef0123456789", bytes(range(64)), rng.randbytes(55), rng.randbytes(200)]
    dsts = [b"QUUX-V01-CS02-with-BLS12381G2_XMD:SHA-256_SSWU_RO_", b"BLS_SIG_BLS12381G2_XMD:SHA-256_SSWU_RO_POP_",
            b"", b"\x01", rng.randbytes(255)]
    for g in (1, 2):
        cases = [(m, d, fns[0]) for m in msgs[:4 if quick else 6] for d in dsts[:2]]
        cases += [(rng.choice(msgs), d, f) for d in dsts[2:] for f in fns[:2]]
        cases += [(b"abc", dsts[0], f) for f in fns[1:]]
        # ONE private module for all cases of a group (state kept between calls must not leak)
        m = toy.private_module("py_ecc/bls/hash_to_curve.py", "py_ecc.bls")
        box = {"I": Interner(), "calls": [], "us": []}

        def wrap(name, fn):
            def w(*a):
                res = fn(*a)
                if name == "hash_to_field":
                    box["us"].append(res)
                    box["calls"].append({"fn": name, "in": [], "out": [box["I"](e) for e in res]})
                else:
                    box["calls"].append({"fn": name, "in": [box["I"](x) for x in a], "out": [box["I"](res)]})
                return res
            return w
        h2f_name = "hash_to_field_FQ" if g == 1 else "hash_to_field_FQ2"
        setattr(m, h2f_name, wrap("hash_to_field", getattr(m, h2f_name)))
        for nm in (f"map_to_curve_G{g}", f"clear_cofactor_G{g}"):
            setattr(m, nm, wrap(nm, getattr(m, nm)))
        m.add = wrap("add", m.add)
        for (msg, dst, (hname, hfn)) in cases:
            box["I"], box["calls"], box["us"] = Interner(), [], []
            I, calls, us = box["I"], box["calls"], box["us"]
            R = recording_hash(hfn)
            R.g = []
            row = {"op": "h2c", "g": g, "msg": list(msg), "dst": list(dst), "hash": hname}
            try:
                fn_ = m.hash_to_G1 if g == 1 else m.hash_to_G2
                if len(out) % 2:        # keyword arguments in another order (if the parameters still have these names)
                    try:
                        P = fn_(hash_function=R, DST=dst, message=msg)
                    except TypeError as te:
                        if "keyword" not in str(te):          # only another parameter NAME is not this check's business
                            raise
                        R.g = []
                        del calls[:]
                        del us[:]
                        P = fn_(msg, dst, R)
                else:
                    P = fn_(msg, dst, R)
                row.update({"H": {"kind": "graph", "b": hfn().digest_size, "s": hfn().block_size, "g": list(R.g)},
                            "calls": calls, "u": [[limbs(c) for c in _coeffs(e)] for e in us[0]] if us else [],
                            "uid": [I(e) for e in us[0]] if us else [], "ret": I(P),
                            "sub": 1 if g2p.subgroup_check(P) is True else 0})
            except Exception as e:  # noqa: BLE001
                row.update({"H": {"kind": "graph", "b": 1, "s": 1, "g": []}, "calls": [], "uid": [], "ret": 0, "sub": 0,
                            "u": f"EXC:{type(e).__name__}:{e}"[:100]})
            out.append(row)
        # hash_to_field alone, counts 1..8
        from py_ecc.bls import hash_to_curve as real
        for count in (range(1, 9) if not quick else (1, 2, 3, 5, 8)):
            hname, hfn = fns[count % len(fns)]
            R = recording_hash(hfn)
            R.g = []
            msg, dst = rng.randbytes(rng.randrange(0, 70)), rng.randbytes(rng.randrange(0, 60))
            row = {"op": "h2f", "g": g, "msg": list(msg), "dst": list(dst), "count": count, "hash": hname}
            try:
                res = (real.hash_to_field_FQ if g == 1 else real.hash_to_field_FQ2)(msg, count, dst, R)
                row["u"] = [[limbs(c) for c in _coeffs(e)] for e in res]
            except Exception as e:  # noqa: BLE001
                row["u"] = f"EXC:{type(e).__name__}:{e}"[:100]
            row["H"] = {"kind": "graph", "b": hfn().digest_size, "s": hfn().block_size, "g": list(R.g)}
            out.append(row)
    return out


def h2c_tables(ctx: Ctx, only=None):
    rs = rows(ctx)
    if only:
        rs = [r for r in rs if r["op"] in only]
    ctx.log(f"hash_to_curve full size: {len(rs)} recorded calls of hash_to_G1/G2 and hash_to_field of the real module")
    ctx.sample({"h2c_row": {k: (v if k in ("op", "g", "hash", "count", "ret", "sub", "uid", "calls") else len(v))
                            for k, v in rs[0].items()}})
    tables.validate(ctx, "H2cTable", rs, invariants=["RowsOK"], result_keys=("u",),
                    tag=lambda r: f"h2c:{r['op']}:G{r['g']}:{r['hash']}",
                    describe=lambda r: f"{r['op']} G{r['g']} hash={r['hash']} msg={bytes(r['msg']).hex()[:40]} "
                                       f"dst={bytes(r['dst']).hex()[:40]} calls={r.get('calls')}")
