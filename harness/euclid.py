"""Step-level trace validation of the extended-Euclid loops (growth of C08 / C18): loop states of the real
functions recorded with sys.settrace, validated against Euclid.tla."""
from __future__ import annotations

import random
import sys

from . import tables
from .core import Ctx


def record(fn, a, n):
    """Run fn(a, n) and return (result, states) where states are the locals (lm, hm, low, high) at every
    evaluation of the loop condition `while low > 1`.  Returns None when the function no longer has that shape."""
    code = fn.__code__
    import dis
    import inspect
    try:
        src, first = inspect.getsourcelines(fn)
    except OSError:
        return None
    wl = [first + k for k, ln in enumerate(src) if ln.strip().startswith("while low > 1")]
    if len(wl) != 1:
        return None
    wline = wl[0]
    states = []

    def tracer(frame, event, arg):
        if frame.f_code is not code:
            return None
        if event == "line" and frame.f_lineno == wline:
            loc = frame.f_locals
            if not all(k in loc for k in ("lm", "hm", "low", "high")):
                states.append(None)
            else:
                states.append({"lm": loc["lm"], "hm": loc["hm"], "low": loc["low"], "high": loc["high"]})
        return tracer
    old = sys.gettrace()
    sys.settrace(tracer)
    try:
        res = fn(a, n)
    finally:
        sys.settrace(old)
    if any(s is None for s in states):
        return None
    return res, states


def euclid_checks(ctx: Ctx, which=("utils", "secp")):
    nmax = 40 if ctx.tier == "quick" else 90
    res = ctx.tlc("MC_Euclid", "SPECIFICATION Spec\nINVARIANT LoopInv\nINVARIANT ResultOK\nPROPERTY Decreases\nPROPERTY Terminates\n",
                  env={"NMAX": nmax}, name="MC_Euclid", timeout=1800)
    for v in res.violations:
        ctx.violation(f"MC_Euclid:{v['name']}", f"Euclid.tla: {v['name']} fails", {"trace": v["trace"][-2:]})
    # unbounded: the invariant is established, preserved by a step with any quotient, the remainder decreases and
    # the result is an inverse - for all integers (TLAPS; supplementary, reported)
    ctx.tlaps("EuclidProof")
    from py_ecc import utils
    from py_ecc.secp256k1 import secp256k1 as s
    fns = []
    if "utils" in which:
        fns.append(("prime_field_inv", utils.prime_field_inv))
    if "secp" in which:
        fns.append(("secp256k1.inv", s.inv))
    rng = random.Random(ctx.seed + 173)
    rows = []
    skipped = []
    for name, fn in fns:
        probe = record(fn, 3, 7)
        if probe is None:
            skipped.append(name)
            continue
        for n in [2, 3, 5, 7, 11, 13, 31, 127, 251, 8191, 32749] + [rng.choice([97, 1009, 10007, 30011]) for _ in range(3)]:
            cand = list(range(-2 * n, 3 * n + 1)) if n <= 31 else \
                [0, 1, 2, n - 1, n, n + 1, 2 * n, -1, -n, -n - 1] + [rng.randrange(-3 * n, 3 * n) for _ in range(40)]
            for a in cand:
                if name == "secp256k1.inv" and a < 0:
                    a = -a          # secp256k1.inv is only called with non-negative values
                try:
                    out = record(fn, a, n)
                    if out is None:
                        continue
                    r_, st = out
                    rows.append({"fn": name, "a": a, "n": n, "states": st, "res": r_ if isinstance(r_, int) else -1})
                except Exception as e:  # noqa: BLE001
                    rows.append({"fn": name, "a": a, "n": n, "states": [], "res": 0, "exc": f"EXC:{type(e).__name__}:{e}"[:100]})
    ctx.note("euclid_trace_functions_skipped", skipped)
    if not rows:
        ctx.log("euclid traces: the functions no longer have the recorded loop shape; step-level validation skipped")
        return
    ctx.log(f"euclid traces: {len(rows)} recorded runs ({sum(len(r['states']) for r in rows)} loop states) of "
            f"{[n for n, _ in fns if n not in skipped]}")
    ctx.add_cov("euclid_loop_states", sum(len(r["states"]) for r in rows))
    # secp256k1.inv returns lm % n with a = 0 -> 0 but for a % n == 0, a != 0 it returns 1 (see DESIGN section 3):
    rows = [r for r in rows if not (r["fn"] == "secp256k1.inv" and r["a"] != 0 and r["a"] % r["n"] == 0)]
    tables.validate(ctx, "EuclidTrace", rows, invariants=["RowsOK"], spec="TSpec", result_keys=(),
                    tag=lambda r: f"euclid:{r['fn']}", describe=lambda r: str(r)[:500])
