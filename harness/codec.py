"""ZCash point serialization (C11): tables from a private copy of py_ecc.bls.point_compression /
g2_primitives whose constants are replaced by toy instances."""
from __future__ import annotations

import random
from multiprocessing import Pool

from . import tables, toy
from .core import Ctx, Guarded, NCPU

# name -> q, b, |E(Fq)|, |E'(Fq^2)|   (q = 3 mod 8, both orders odd; found by search, re-checked by TLC)
INSTANCES = {
    "q19b4": dict(q=19, b=4, o1=21, o2=373),
    "q43b9": dict(q=43, b=9, o1=57, o2=1933),
    "q67b4": dict(q=67, b=4, o1=57, o2=4381),
}
P381, P382, P383 = 2 ** 381, 2 ** 382, 2 ** 383


def spec_fields():
    out = []
    for inst in INSTANCES.values():
        out.append({"p": inst["q"], "d": 1, "mc": [0]})
        out.append({"p": inst["q"], "d": 2, "mc": [1, 0]})
    return out


def spec_curves():
    out = []
    for k, inst in enumerate(INSTANCES.values()):
        out.append({"f": 2 * k + 1, "a": [0], "b": [inst["b"]], "order": inst["o1"]})
        out.append({"f": 2 * k + 2, "a": [0, 0], "b": [inst["b"], inst["b"]], "order": inst["o2"]})
    return out


def cidx(name, g):
    return 2 * list(INSTANCES).index(name) + g


_mods = {}


def modules(name):
    """(point_compression copy, g2_primitives copy, FQ, FQ2) for a toy instance."""
    if name in _mods:
        return _mods[name]
    inst = INSTANCES[name]
    q = inst["q"]
    FQ = toy.field_classes(q, 1, (0,), "opt")
    FQ2 = toy.field_classes(q, 2, (1, 0), "opt")
    pc = toy.private_module("py_ecc/bls/point_compression.py", "py_ecc.bls")
    pc.q = q
    pc.FQ, pc.FQ2 = FQ, FQ2
    pc.b = FQ(inst["b"])
    pc.b2 = FQ2([inst["b"], inst["b"]])
    pc.Z1 = (FQ.one(), FQ.one(), FQ.zero())
    pc.Z2 = (FQ2.one(), FQ2.one(), FQ2.zero())
    pc.FQ2_ORDER = q * q - 1
    pc.EIGHTH_ROOTS_OF_UNITY = tuple(FQ2([1, 1]) ** ((pc.FQ2_ORDER * k) // 8) for k in range(8))
    g2p = toy.private_module("py_ecc/bls/g2_primitives.py", "py_ecc.bls")
    g2p.compress_G1, g2p.compress_G2 = pc.compress_G1, pc.compress_G2
    g2p.decompress_G1, g2p.decompress_G2 = pc.decompress_G1, pc.decompress_G2
    _mods[name] = (pc, g2p, FQ, FQ2)
    return _mods[name]


# --------------------------------------------------------------------------- plain-int helpers (inputs only)
def _mul(a, b, q):
    if len(a) == 1:
        return [a[0] * b[0] % q]
    return [(a[0] * b[0] - a[1] * b[1]) % q, (a[0] * b[1] + a[1] * b[0]) % q]


def points(name, g):
    inst = INSTANCES[name]
    q, b = inst["q"], inst["b"]
    d = g
    els = toy.elems(q, d)
    bb = [b] if d == 1 else [b, b]
    sq = {}
    for y in els:
        sq.setdefault(tuple(_mul(y, y, q)), []).append(y)
    pts = []
    for x in els:
        x3 = _mul(_mul(x, x, q), x, q)
        rhs = tuple((x3[k] + bb[k]) % q for k in range(d))
        for y in sq.get(rhs, []):
            pts.append((x, y))
    assert len(pts) + 1 == inst["o1" if g == 1 else "o2"], (name, g, len(pts) + 1)
    return pts


def word_int(w):
    return (w["c"] << 383) | (w["b"] << 382) | (w["a"] << 381) | w["x"]


def int_word(z):
    if not isinstance(z, int) or isinstance(z, bool) or not (0 <= z < 2 ** 384):
        return f"BADVALUE:word {z!r}"[:80]
    x = z % P381
    if x >= 2 ** 31:
        return f"BADVALUE:word x={x}"[:80]
    return {"c": (z >> 383) & 1, "b": (z >> 382) & 1, "a": (z >> 381) & 1, "x": x}


def mkw(c, b, a, x):
    return {"c": c, "b": b, "a": a, "x": x}


def wbytes(w):
    return list(word_int(w).to_bytes(48, "big"))


def _exc(e):
    return [] if type(e) is ValueError else f"EXC:{type(e).__name__}:{e}"[:100]


def _proj(R, d):
    if isinstance(R, (str, list)):
        return R
    try:
        return [toy.proj(c, d) for c in R]
    except Exception as e:  # noqa: BLE001
        return f"EXC:proj:{type(e).__name__}"


def _job(job):
    name, g, op, items = job
    pc, g2p, FQ, FQ2 = modules(name)
    cls = FQ if g == 1 else FQ2
    d = g
    ci = cidx(name, g)
    el = lambda c: toy.mk(cls, d, c)  # noqa: E731
    pt = lambda R: tuple(el(c) for c in R)  # noqa: E731
    comp = pc.compress_G1 if g == 1 else pc.compress_G2
    dec = pc.decompress_G1 if g == 1 else pc.decompress_G2
    rows = []
    for it in items:
        r = {"c": ci, "op": op}
        try:
            if op in ("g1rt", "g2rt"):
                r["P"] = it
                z = comp(pt(it))
                if g == 1:
                    r["z"] = int_word(z)
                else:
                    r["z"] = [int_word(z[0]), int_word(z[1])]
                    if any(isinstance(v, str) for v in r["z"]):
                        r["z"] = [v for v in r["z"] if isinstance(v, str)][0]
                r["r"] = _proj(dec(z), d)
            elif op == "g1d":
                r["w"] = it
                r["r"] = _proj(dec(word_int(it)), d)
            elif op == "g2d":
                r["w1"], r["w2"] = it
                r["r"] = _proj(dec((word_int(it[0]), word_int(it[1]))), d)
            elif op in ("g1b", "g2b"):
                r["P"] = it
                s = (g2p.G1_to_pubkey if g == 1 else g2p.G2_to_signature)(pt(it))
                r["s"] = list(s) if isinstance(s, (bytes, bytearray)) else f"BADVALUE:{type(s).__name__}"
            elif op == "sq2":
                r["v"] = it
                F2 = pc.FQ2
                res = pc.modular_squareroot_in_FQ2(F2(list(it)))
                r["r"] = [] if res is None else [int(c) if isinstance(c, int) else int(c.n) for c in res.coeffs]
            elif op in ("g1p", "g2p"):
                r["s"] = it
                r["r"] = _proj((g2p.pubkey_to_G1 if g == 1 else g2p.signature_to_G2)(bytes(it)), d)
        except Exception as e:  # noqa: BLE001
            key = "s" if op in ("g1b", "g2b") else "r"
            r[key] = _exc(e)
            if op in ("g1rt", "g2rt") and "z" not in r:
                r["z"] = r[key] if isinstance(r[key], str) else "EXC:ValueError in compress"
        rows.append(r)
    return rows


def scale(R, lam, q):
    x, y = R
    return [_mul(x, lam, q), _mul(y, lam, q), list(lam)]


def build(tier, seed):
    rng = random.Random(seed + 41)
    quick = tier == "quick"
    jobs = []   # (job, claim or None)
    for name, inst in INSTANCES.items():
        q = inst["q"]
        for g in (1, 2):
            d = g
            pts = points(name, g)
            one = [1] + [0] * (d - 1)
            zero = [0] * d
            units = [e for e in toy.elems(q, d) if any(e)]
            infs = [[one, one, zero], [zero, one, zero], [zero, zero, zero],
                    [rng.choice(units), rng.choice(units), zero]]
            use = pts
            full = True
            if quick and len(pts) > 500:
                use = rng.sample(pts, 300)
                full = False
            reps = list(infs)
            for R in use:
                reps.append(scale(R, one, q))
                reps.append(scale(R, rng.choice(units), q))
                if len(pts) < 100:
                    reps.append(scale(R, [q - 1] + [0] * (d - 1), q))
                    reps.append(scale(R, rng.choice(units), q))
            jobs.append(((name, g, f"g{g}rt", reps), {"kind": "points"} if full else None))
            jobs.append(((name, g, f"g{g}b", reps[: 4 + 2 * min(len(use), 200)]), None))
            xmax = 2 * q + 1
            fl = [(c, b, a) for c in (0, 1) for b in (0, 1) for a in (0, 1)]
            bigx = [2 ** 24 + 5, 2 ** 30, 2 ** 31 - 1]
            if g == 1:
                words = [mkw(c, b, a, x) for (c, b, a) in fl for x in range(0, xmax + 1)]
                jobs.append(((name, g, "g1d", words), {"kind": "words1", "xmax": xmax}))
                jobs.append(((name, g, "g1d", [mkw(c, b, a, x) for (c, b, a) in fl for x in bigx]), None))
                bs = [wbytes(w) for w in words]
                for _ in range(60):
                    s = wbytes(rng.choice(words))
                    s[rng.randrange(1, 45)] = rng.randrange(1, 256)     # value far above q
                    bs.append(s)
                bs += [list(rng.randbytes(48)) for _ in range(40)]
                bs += [[0] * 48, [255] * 48, [0xc0] + [0] * 47, [0x80] + [0] * 47, [0xe0] + [0] * 47]
                jobs.append(((name, g, "g1p", bs), None))
            else:
                nof = mkw(0, 0, 0, 0)
                if q <= 19 or not quick:
                    xs = range(0, xmax + 1) if q <= 19 else None
                if q <= 19:
                    pairs = [(mkw(c, b, a, x1), mkw(0, 0, 0, x2)) for (c, b, a) in fl
                             for x1 in range(0, xmax + 1) for x2 in range(0, xmax + 1)]
                    jobs.append(((name, g, "g2d", pairs), {"kind": "words2", "xmax": xmax}))
                else:
                    n = 4000 if quick else 60000
                    pairs = [(mkw(*rng.choice(fl), rng.randrange(0, xmax + 1)), mkw(0, 0, 0, rng.randrange(0, xmax + 1)))
                             for _ in range(n)]
                    # valid encodings of real points so that the accepting path is dense
                    pairs += [(mkw(1, 0, a, R[0][1]), mkw(0, 0, 0, R[0][0])) for R in use[:1500] for a in (0, 1)]
                    jobs.append(((name, g, "g2d", pairs), None))
                # flag bits in the second word, large values in either word
                var = []
                for R in use[:80]:
                    for (c, b, a) in fl[1:]:
                        var.append((mkw(1, 0, rng.randrange(2), R[0][1]), mkw(c, b, a, R[0][0])))
                for x in bigx:
                    var.append((mkw(1, 0, 0, x), mkw(0, 0, 0, 1)))
                    var.append((mkw(1, 0, 0, 1), mkw(0, 0, 0, x)))
                for (c, b, a) in fl:
                    for (c2, b2, a2) in fl:
                        var.append((mkw(c, b, a, 0), mkw(c2, b2, a2, 0)))     # infinity patterns
                        var.append((mkw(c, b, a, 0), mkw(c2, b2, a2, 1)))
                jobs.append(((name, g, "g2d", var), None))
                bs = [wbytes(w1) + wbytes(w2) for (w1, w2) in (pairs[:: max(1, len(pairs) // 1500)] + var)]
                for _ in range(60):
                    s = list(rng.choice(bs))
                    s[rng.choice([rng.randrange(1, 45), rng.randrange(49, 93)])] = rng.randrange(1, 256)
                    bs.append(s)
                bs += [list(rng.randbytes(96)) for _ in range(40)]
                bs += [[0] * 96, [255] * 96, [0xc0] + [0] * 95, [0xc0] + [0] * 94 + [1], [0xc0] + [0] * 47 + [0x80] + [0] * 47]
                jobs.append(((name, g, "g2p", bs), None))
                # the documented helper: the square root in Fq2 with the larger imaginary (then real) component, or None
                q_ = INSTANCES[name]["q"] if isinstance(INSTANCES.get(name), dict) and "q" in INSTANCES[name] else None
                if q_:
                    vals = [[a, b] for a in range(q_) for b in range(q_)]
                    if len(vals) > 2500:
                        vals = rng.sample(vals, 2500) + [[0, 0], [1, 0], [0, 1], [q_ - 1, 0]]
                    jobs.append(((name, g, "sq2", vals), None))
    work = []
    for ji, (job, claim) in enumerate(jobs):
        name, g, op, items = job
        for k in range(0, len(items), 1500):
            work.append((ji, (name, g, op, items[k:k + 1500])))
    with Pool(NCPU) as pool:
        parts = pool.map(Guarded(_wrap), work, chunksize=1)
    by = {}
    for (ji, _), rows in zip(work, parts):
        by.setdefault(ji, []).extend(rows)
    rows, claims = [], []
    for ji, (job, claim) in enumerate(jobs):
        lo = len(rows) + 1
        rows.extend(by.get(ji, []))
        if claim:
            c = {"c": cidx(job[0], job[1]), "op": job[2], "lo": lo, "hi": len(rows), "kind": claim["kind"],
                 "xmax": claim.get("xmax", 0)}
            claims.append(c)
    return rows, claims


def _wrap(w):
    return _job(w[1])


def _tag(r):
    """Rows that involve decoding a G1 word / point with x = 0 carry the key of known finding F4."""
    t = f"{r['op']}"
    names = list(INSTANCES)
    inst = names[(r["c"] - 1) // 2]
    x0 = False
    if r["op"] == "g1rt" and (r["c"] % 2 == 1):
        P = r["P"]
        x0 = P[2] != [0] and P[0] == [0]
    elif r["op"] == "g1d":
        w = r["w"]
        x0 = w["c"] == 1 and w["b"] == 0 and w["x"] == 0
    elif r["op"] == "g1p":
        s = r["s"]
        x0 = (s[0] & 0xc0) == 0x80 and not any(s[1:]) and (s[0] & 0x1f) == 0
    return f"{inst}:{t}" + (":F4-g1-x0" if x0 else "")


def codec_tables(ctx: Ctx):
    rows, claims = build(ctx.tier, ctx.seed)
    ctx.log(f"codec tables: {len(rows)} rows from the private point_compression / g2_primitives copies, "
            f"{len(claims)} exhaustive claims")
    for r in rows[:: max(1, len(rows) // 6)][:6]:
        ctx.sample({k: (bytes(v).hex() if k == "s" and isinstance(v, list) else v) for k, v in r.items()})
    ctx.note("instances", INSTANCES)
    ctx.add_cov("rows_accepted_decodings", sum(1 for r in rows if r["op"][2] in "dp" and isinstance(r.get("r"), list) and r["r"]))
    ctx.add_cov("rows_refused_decodings", sum(1 for r in rows if r["op"][2] in "dp" and r.get("r") == []))
    tables.validate(ctx, "CodecTable", rows, invariants=["CurvesOK", "ClaimsOK", "RowsOK"],
                    files={"FIELDS": spec_fields(), "CURVES": spec_curves(), "CLAIMS": claims},
                    tag=_tag, result_keys=("r", "z", "s"),
                    describe=lambda r: str({k: (bytes(v).hex() if k == "s" and isinstance(v, list) else v)
                                            for k, v in r.items()}))


# ----------------------------------------------------------------------------- full size (BigNat)
def big_rows(ctx: Ctx):
    from py_ecc import optimized_bls12_381 as ob
    from py_ecc.bls import g2_primitives as g2p
    from .constants import limbs
    from .grouptrace import f2_inv, f2_mul, f2_sqrt, f_inv
    rng = random.Random(ctx.seed + 43)
    quick = ctx.tier == "quick"
    p, r = ob.field_modulus, ob.curve_order

    def aff(P, d):
        cs = [tuple(int(t) for t in (c.coeffs if d == 2 else (c.n,))) for c in P]
        if not any(cs[2]):
            return None
        if d == 1:
            zi = f_inv(p, cs[2][0])
            return ((cs[0][0] * zi % p,), (cs[1][0] * zi % p,))
        zi = f2_inv(p, cs[2])
        return (f2_mul(p, cs[0], zi), f2_mul(p, cs[1], zi))

    def L(pt):
        return [] if pt is None else [[limbs(c) for c in pt[0]], [limbs(c) for c in pt[1]]]

    def rhs(x, d):
        if d == 1:
            return ((x[0] ** 3 + 4) % p,)
        x3 = f2_mul(p, f2_mul(p, x, x), x)
        return ((x3[0] + 4) % p, (x3[1] + 4) % p)

    def sqrt(a, d):
        if d == 1:
            y = pow(a[0], (p + 1) // 4, p)
            return (y,) if y * y % p == a[0] else None
        y = f2_sqrt(p, a)
        return y if y is not None and f2_mul(p, y, y) == a else None

    def witness(x, d):
        g = rhs(x, d)
        s = sqrt(g, d)
        if s is not None:
            return 1, s
        xi = (p - 1,) if d == 1 else (1, 1)
        g2 = ((g[0] * xi[0]) % p,) if d == 1 else f2_mul(p, g, xi)
        s = sqrt(g2, d)
        return 0, (s if s is not None else ((0,) * d))

    def rand_point(d, band=None):
        while True:
            x = [rng.randrange(p) for _ in range(d)]
            if band:
                x[band[0]] = rng.randrange(band[1], band[2])
            x = tuple(x)
            y = sqrt(rhs(x, d), d)
            if y is not None:
                F = ob.FQ if d == 1 else ob.FQ2
                mk = (lambda c: F(c[0])) if d == 1 else (lambda c: F(list(c)))
                return (mk(x), mk(y), F.one())

    rows = []

    def enc_dec(P, d):
        a = aff(P, d)
        row = {"op": "enc", "g": d, "P": L(a), "r": [], "w": [], "sq": 0}
        try:
            s = (g2p.G1_to_pubkey if d == 1 else g2p.G2_to_signature)(P)
            row["s"] = list(s)
        except Exception as e:  # noqa: BLE001
            row["s"] = f"EXC:{type(e).__name__}:{e}"[:100]
        rows.append(row)
        if isinstance(row["s"], list):
            dec(bytes(row["s"]), d, "F4-g1-x0" if (d == 1 and a is not None and a[0] == (0,)) else "")

    def dec(s, d, tag=""):
        row = {"op": "dec", "g": d, "s": list(s), "P": [], "w": [], "sq": 0, "kf": tag}
        try:
            pt = (g2p.pubkey_to_G1 if d == 1 else g2p.signature_to_G2)(s)
            a = aff(pt, d)
            row["r"] = L(a)
        except ValueError:
            row["r"] = [0]
        except Exception as e:  # noqa: BLE001
            row["r"] = f"EXC:{type(e).__name__}:{e}"[:100]
        if len(s) == 48 * d:
            v1 = int.from_bytes(s[:48], "big") % 2 ** 381
            v2 = int.from_bytes(s[48:96], "big") if d == 2 else 0
            if v1 < p and v2 < p:
                x = (v1,) if d == 1 else (v2, v1)
                sq, w = witness(x, d)
                row["sq"], row["w"] = sq, [limbs(c) for c in w]
        if not row["w"]:
            row["w"] = [[] for _ in range(d)]
        rows.append(row)

    for d, G, Z in ((1, ob.G1, ob.Z1), (2, ob.G2, ob.Z2)):
        F = ob.FQ if d == 1 else ob.FQ2
        pts = [G, ob.multiply(G, 2), ob.multiply(G, r - 1), ob.multiply(G, rng.randrange(1, r)), Z,
               tuple(c * (F(7) if d == 1 else F([3, 5])) for c in ob.multiply(G, 11)), (F.zero(), F.one(), F.zero())]
        pts += [rand_point(d) for _ in range(4 if quick else 40)]          # mostly outside the subgroup
        # coordinates in boundary bands of the 381-bit range (top byte 0x1a just below p, just below p, tiny,
        # around 2^380, top byte 0x19): byte-level shortcuts of a decoder go wrong there first
        top = 0x1a << 376
        bands = [(top, p), (p - 2 ** 16, p), (0, 2 ** 16), (2 ** 380, 2 ** 380 + 2 ** 16), (0x19 << 376, top),
                 (top - 2 ** 16, top + 2 ** 16)]
        for lo, hi in bands:
            for comp in range(d):
                for _ in range(1 if quick else 6):
                    pts.append(rand_point(d, band=(comp, lo, hi)))
        # y just above / below (p - 1) / 2 - where the sign flag flips (the relevant coordinate of y: its imaginary part,
        # and the real part when the imaginary part is zero) - and x with a zero coordinate
        from .grouptrace import points_with_y
        half = (p - 1) // 2
        near = [half + k for k in (1, 2, 3, 5, 1000)] + [half - k for k in (0, 1, 7)] + [half + 2 ** 300, half + 2 ** 330]
        if d == 1:
            ys = [(v,) for v in near]
        else:
            ys = [(rng.randrange(p), v) for v in near] + [(v, 0) for v in near[:4]]
        got = points_with_y(p, rng, ys, d)
        rng.shuffle(got)
        for x_, y_ in got[:(4 if quick else 16)]:
            pts.append(((F(x_[0]), F(y_[0]), F.one()) if d == 1 else (F(list(x_)), F(list(y_)), F.one())))
        if d == 2:
            cnt = 0
            for _ in range(400):
                t_ = rng.randrange(1, p)
                x_ = (0, t_) if cnt % 2 == 0 else (t_, 0)
                y_ = sqrt(rhs(x_, 2), 2)
                if y_ is not None:
                    pts.append((F(list(x_)), F(list(y_)), F.one()))
                    cnt += 1
                    if cnt >= (4 if quick else 16):
                        break
        if d == 1:
            pts += [(F(0), F(2), F(1)), (F(0), F(p - 2), F(1)), (F(0), F(2) * F(9), F(9))]     # the order-3 points (0, +-2)
        if d == 2:      # y with zero imaginary / zero real part (the other branch of the sign rule)
            from .grouptrace import real_y_twist_points
            for x, y in real_y_twist_points(p, rng, 4 if quick else 24):
                pts.append((F(list(x)), F(list(y)), F.one()))
                pts.append((F(list(x)), -F(list(y)), F.one()))
        if d == 2:      # points whose FQ2 coordinates are built from FQ-OBJECT coefficients, affine and rescaled
            FQ1 = ob.FQ
            for P in list(pts[:3]):
                a_ = aff(P, 2)
                if a_ is None:
                    continue
                mkq = lambda c_: F([FQ1(c_[0]), FQ1(c_[1])])         # noqa: E731
                pts.append((mkq(a_[0]), mkq(a_[1]), F([FQ1(1), FQ1(0)])))
                lam = mkq((rng.randrange(1, p), rng.randrange(p)))
                try:
                    pts.append((mkq(a_[0]) * lam, mkq(a_[1]) * lam, lam))
                except Exception as e_:  # noqa: BLE001 -- multiplication of such elements failing: a row, not a crash
                    rows.append({"op": "enc", "g": 2, "P": L(a_), "r": [], "w": [], "sq": 0,
                                 "s": f"EXC:{type(e_).__name__}:{e_}"[:100]})
        for P in pts:
            enc_dec(P, d)
        # words: flag combinations x boundary values
        good = bytes((g2p.G1_to_pubkey if d == 1 else g2p.G2_to_signature)(ob.multiply(G, 5)))
        xs = [0, 1, p - 1, p, p + 1, 2 ** 381 - 1, int.from_bytes(good[:48], "big") % 2 ** 381, rng.randrange(p), rng.randrange(p)]
        for c in (0, 1):
            for b in (0, 1):
                for a in (0, 1):
                    for x in xs:
                        w1 = ((c << 383) | (b << 382) | (a << 381) | x).to_bytes(48, "big")
                        if d == 1:
                            dec(w1, 1, "F4-g1-x0" if (c, b, x) == (1, 0, 0) else "")
                        else:
                            for z2 in (good[48:], bytes(48), (p).to_bytes(48, "big"), (2 ** 381 + 5).to_bytes(48, "big"),
                                       bytes([0x80]) + good[49:], bytes([good[48] | 0x20]) + good[49:], (1).to_bytes(48, "big")):
                                if x in xs[:3] + xs[6:7] or z2 == good[48:]:
                                    dec(w1 + z2, 2)
        for _ in range(6 if quick else 60):
            dec(rng.randbytes(48 * d), d)
    return rows


def big_tables(ctx: Ctx):
    rows = big_rows(ctx)
    ctx.log(f"codec full size: {len(rows)} encodings / decodings of the real module")
    ctx.add_cov("full_size_codec_rows", len(rows))
    ctx.add_cov("full_size_decoded_points", sum(1 for r in rows if r["op"] == "dec" and isinstance(r["r"], list) and len(r["r"]) == 2))
    tables.validate(ctx, "CodecBig", rows, invariants=["PremisesOK", "RowsOK"], result_keys=("r", "s"),
                    tag=lambda r: f"codecbig:{r['op']}:G{r['g']}:{r.get('kf', '')}",
                    describe=lambda r: f"{r['op']} G{r['g']} bytes={bytes(r['s']).hex() if isinstance(r['s'], list) else r['s']} "
                                       f"result={'ValueError' if r['r'] == [0] else ('infinity' if r['r'] == [] else 'point')} sq={r['sq']}")
