"""ZCash point serialization (C11): tables from a private copy of py_ecc.bls.point_compression /
g2_primitives whose constants are replaced by toy instances."""
from __future__ import annotations

import random
from multiprocessing import Pool

from . import tables, toy
from .core import Ctx, NCPU

# name -> q, b, |E(Fq)|, |E'(Fq^2)|   (q = 3 mod 8, both orders odd; found by search, re-checked by TLC)
INSTANCES = {
    "q19b4": dict(q=19, b=4, o1=21, o2=373),
    "q43b9": dict(q=43, b=9, o1=57, o2=1933),
    "q67b4": dict(q=67, b=4, o1=57, o2=4381),
}
P381, P382, P383 = 2 ** 381, 2 ** 382, 2 ** 383


def spec_fields():
    out = []
    for inst in INSTANCES.values():
        out.append({"p": inst["q"], "d": 1, "mc": [0]})
        out.append({"p": inst["q"], "d": 2, "mc": [1, 0]})
    return out


def spec_curves():
    out = []
    for k, inst in enumerate(INSTANCES.values()):
        out.append({"f": 2 * k + 1, "a": [0], "b": [inst["b"]], "order": inst["o1"]})
        out.append({"f": 2 * k + 2, "a": [0, 0], "b": [inst["b"], inst["b"]], "order": inst["o2"]})
    return out


def cidx(name, g):
    return 2 * list(INSTANCES).index(name) + g


_mods = {}


def modules(name):
    """(point_compression copy, g2_primitives copy, FQ, FQ2) for a toy instance."""
    if name in _mods:
        return _mods[name]
    inst = INSTANCES[name]
    q = inst["q"]
    FQ = toy.field_classes(q, 1, (0,), "opt")
    FQ2 = toy.field_classes(q, 2, (1, 0), "opt")
    pc = toy.private_module("py_ecc/bls/point_compression.py", "py_ecc.bls")
    pc.q = q
    pc.FQ, pc.FQ2 = FQ, FQ2
    pc.b = FQ(inst["b"])
    pc.b2 = FQ2([inst["b"], inst["b"]])
    pc.Z1 = (FQ.one(), FQ.one(), FQ.zero())
    pc.Z2 = (FQ2.one(), FQ2.one(), FQ2.zero())
    pc.FQ2_ORDER = q * q - 1
    pc.EIGHTH_ROOTS_OF_UNITY = tuple(FQ2([1, 1]) ** ((pc.FQ2_ORDER * k) // 8) for k in range(8))
    g2p = toy.private_module("py_ecc/bls/g2_primitives.py", "py_ecc.bls")
    g2p.compress_G1, g2p.compress_G2 = pc.compress_G1, pc.compress_G2
    g2p.decompress_G1, g2p.decompress_G2 = pc.decompress_G1, pc.decompress_G2
    _mods[name] = (pc, g2p, FQ, FQ2)
    return _mods[name]


# --------------------------------------------------------------------------- plain-int helpers (inputs only)
def _mul(a, b, q):
    if len(a) == 1:
        return [a[0] * b[0] % q]
    return [(a[0] * b[0] - a[1] * b[1]) % q, (a[0] * b[1] + a[1] * b[0]) % q]


def points(name, g):
    inst = INSTANCES[name]
    q, b = inst["q"], inst["b"]
    d = g
    els = toy.elems(q, d)
    bb = [b] if d == 1 else [b, b]
    sq = {}
    for y in els:
        sq.setdefault(tuple(_mul(y, y, q)), []).append(y)
    pts = []
    for x in els:
        x3 = _mul(_mul(x, x, q), x, q)
        rhs = tuple((x3[k] + bb[k]) % q for k in range(d))
        for y in sq.get(rhs, []):
            pts.append((x, y))
    assert len(pts) + 1 == inst["o1" if g == 1 else "o2"], (name, g, len(pts) + 1)
    return pts


def word_int(w):
    return (w["c"] << 383) | (w["b"] << 382) | (w["a"] << 381) | w["x"]


def int_word(z):
    if not isinstance(z, int) or isinstance(z, bool) or not (0 <= z < 2 ** 384):
        return f"BADVALUE:word {z!r}"[:80]
    x = z % P381
    if x >= 2 ** 31:
        return f"BADVALUE:word x={x}"[:80]
    return {"c": (z >> 383) & 1, "b": (z >> 382) & 1, "a": (z >> 381) & 1, "x": x}


def mkw(c, b, a, x):
    return {"c": c, "b": b, "a": a, "x": x}


def wbytes(w):
    return list(word_int(w).to_bytes(48, "big"))


def _exc(e):
    return [] if type(e) is ValueError else f"EXC:{type(e).__name__}:{e}"[:100]


def _proj(R, d):
    if isinstance(R, (str, list)):
        return R
    try:
        return [toy.proj(c, d) for c in R]
    except Exception as e:  # noqa: BLE001
        return f"EXC:proj:{type(e).__name__}"


def _job(job):
    name, g, op, items = job
    pc, g2p, FQ, FQ2 = modules(name)
    cls = FQ if g == 1 else FQ2
    d = g
    ci = cidx(name, g)
    el = lambda c: toy.mk(cls, d, c)  # noqa: E731
    pt = lambda R: tuple(el(c) for c in R)  # noqa: E731
    comp = pc.compress_G1 if g == 1 else pc.compress_G2
    dec = pc.decompress_G1 if g == 1 else pc.decompress_G2
    rows = []
    for it in items:
        r = {"c": ci, "op": op}
        try:
            if op in ("g1rt", "g2rt"):
                r["P"] = it
                z = comp(pt(it))
                if g == 1:
                    r["z"] = int_word(z)
                else:
                    r["z"] = [int_word(z[0]), int_word(z[1])]
                    if any(isinstance(v, str) for v in r["z"]):
                        r["z"] = [v for v in r["z"] if isinstance(v, str)][0]
                r["r"] = _proj(dec(z), d)
            elif op == "g1d":
                r["w"] = it
                r["r"] = _proj(dec(word_int(it)), d)
            elif op == "g2d":
                r["w1"], r["w2"] = it
                r["r"] = _proj(dec((word_int(it[0]), word_int(it[1]))), d)
            elif op in ("g1b", "g2b"):
                r["P"] = it
                s = (g2p.G1_to_pubkey if g == 1 else g2p.G2_to_signature)(pt(it))
                r["s"] = list(s) if isinstance(s, (bytes, bytearray)) else f"BADVALUE:{type(s).__name__}"
            elif op in ("g1p", "g2p"):
                r["s"] = it
                r["r"] = _proj((g2p.pubkey_to_G1 if g == 1 else g2p.signature_to_G2)(bytes(it)), d)
        except Exception as e:  # noqa: BLE001
            key = "s" if op in ("g1b", "g2b") else "r"
            r[key] = _exc(e)
            if op in ("g1rt", "g2rt") and "z" not in r:
                r["z"] = r[key] if isinstance(r[key], str) else "EXC:ValueError in compress"
        rows.append(r)
    return rows


def scale(R, lam, q):
    x, y = R
    return [_mul(x, lam, q), _mul(y, lam, q), list(lam)]


def build(tier, seed):
    rng = random.Random(seed + 41)
    quick = tier == "quick"
    jobs = []   # (job, claim or None)
    for name, inst in INSTANCES.items():
        q = inst["q"]
        for g in (1, 2):
            d = g
            pts = points(name, g)
            one = [1] + [0] * (d - 1)
            zero = [0] * d
            units = [e for e in toy.elems(q, d) if any(e)]
            infs = [[one, one, zero], [zero, one, zero], [zero, zero, zero],
                    [rng.choice(units), rng.choice(units), zero]]
            use = pts
            full = True
            if quick and len(pts) > 500:
                use = rng.sample(pts, 300)
                full = False
            reps = list(infs)
            for R in use:
                reps.append(scale(R, one, q))
                reps.append(scale(R, rng.choice(units), q))
                if len(pts) < 100:
                    reps.append(scale(R, [q - 1] + [0] * (d - 1), q))
                    reps.append(scale(R, rng.choice(units), q))
            jobs.append(((name, g, f"g{g}rt", reps), {"kind": "points"} if full else None))
            jobs.append(((name, g, f"g{g}b", reps[: 4 + 2 * min(len(use), 200)]), None))
            xmax = 2 * q + 1
            fl = [(c, b, a) for c in (0, 1) for b in (0, 1) for a in (0, 1)]
            bigx = [2 ** 24 + 5, 2 ** 30, 2 ** 31 - 1]
            if g == 1:
                words = [mkw(c, b, a, x) for (c, b, a) in fl for x in range(0, xmax + 1)]
                jobs.append(((name, g, "g1d", words), {"kind": "words1", "xmax": xmax}))
                jobs.append(((name, g, "g1d", [mkw(c, b, a, x) for (c, b, a) in fl for x in bigx]), None))
                bs = [wbytes(w) for w in words]
                for _ in range(60):
                    s = wbytes(rng.choice(words))
                    s[rng.randrange(1, 45)] = rng.randrange(1, 256)     # value far above q
                    bs.append(s)
                bs += [list(rng.randbytes(48)) for _ in range(40)]
                bs += [[0] * 48, [255] * 48, [0xc0] + [0] * 47, [0x80] + [0] * 47, [0xe0] + [0] * 47]
                jobs.append(((name, g, "g1p", bs), None))
            else:
                nof = mkw(0, 0, 0, 0)
                if q <= 19 or not quick:
                    xs = range(0, xmax + 1) if q <= 19 else None
                if q <= 19:
                    pairs = [(mkw(c, b, a, x1), mkw(0, 0, 0, x2)) for (c, b, a) in fl
                             for x1 in range(0, xmax + 1) for x2 in range(0, xmax + 1)]
                    jobs.append(((name, g, "g2d", pairs), {"kind": "words2", "xmax": xmax}))
                else:
                    n = 4000 if quick else 60000
                    pairs = [(mkw(*rng.choice(fl), rng.randrange(0, xmax + 1)), mkw(0, 0, 0, rng.randrange(0, xmax + 1)))
                             for _ in range(n)]
                    # valid encodings of real points so that the accepting path is dense
                    pairs += [(mkw(1, 0, a, R[0][1]), mkw(0, 0, 0, R[0][0])) for R in use[:1500] for a in (0, 1)]
                    jobs.append(((name, g, "g2d", pairs), None))
                # flag bits in the second word, large values in either word
                var = []
                for R in use[:80]:
                    for (c, b, a) in fl[1:]:
                        var.append((mkw(1, 0, rng.randrange(2), R[0][1]), mkw(c, b, a, R[0][0])))
                for x in bigx:
                    var.append((mkw(1, 0, 0, x), mkw(0, 0, 0, 1)))
                    var.append((mkw(1, 0, 0, 1), mkw(0, 0, 0, x)))
                for (c, b, a) in fl:
                    for (c2, b2, a2) in fl:
                        var.append((mkw(c, b, a, 0), mkw(c2, b2, a2, 0)))     # infinity patterns
                        var.append((mkw(c, b, a, 0), mkw(c2, b2, a2, 1)))
                jobs.append(((name, g, "g2d", var), None))
                bs = [wbytes(w1) + wbytes(w2) for (w1, w2) in (pairs[:: max(1, len(pairs) // 1500)] + var)]
                for _ in range(60):
                    s = list(rng.choice(bs))
                    s[rng.choice([rng.randrange(1, 45), rng.randrange(49, 93)])] = rng.randrange(1, 256)
                    bs.append(s)
                bs += [list(rng.randbytes(96)) for _ in range(40)]
                bs += [[0] * 96, [255] * 96, [0xc0] + [0] * 95, [0xc0] + [0] * 94 + [1], [0xc0] + [0] * 47 + [0x80] + [0] * 47]
                jobs.append(((name, g, "g2p", bs), None))
    work = []
    for ji, (job, claim) in enumerate(jobs):
        name, g, op, items = job
        for k in range(0, len(items), 1500):
            work.append((ji, (name, g, op, items[k:k + 1500])))
    with Pool(NCPU) as pool:
        parts = pool.map(_wrap, work, chunksize=1)
    by = {}
    for (ji, _), rows in zip(work, parts):
        by.setdefault(ji, []).extend(rows)
    rows, claims = [], []
    for ji, (job, claim) in enumerate(jobs):
        lo = len(rows) + 1
        rows.extend(by.get(ji, []))
        if claim:
            c = {"c": cidx(job[0], job[1]), "op": job[2], "lo": lo, "hi": len(rows), "kind": claim["kind"],
                 "xmax": claim.get("xmax", 0)}
            claims.append(c)
    return rows, claims


def _wrap(w):
    return _job(w[1])


def _tag(r):
    """Rows that involve decoding a G1 word / point with x = 0 carry the key of known finding F4."""
    t = f"{r['op']}"
    names = list(INSTANCES)
    inst = names[(r["c"] - 1) // 2]
    x0 = False
    if r["op"] == "g1rt" and (r["c"] % 2 == 1):
        P = r["P"]
        x0 = P[2] != [0] and P[0] == [0]
    elif r["op"] == "g1d":
        w = r["w"]
        x0 = w["c"] == 1 and w["b"] == 0 and w["x"] == 0
    elif r["op"] == "g1p":
        s = r["s"]
        x0 = (s[0] & 0xc0) == 0x80 and not any(s[1:]) and (s[0] & 0x1f) == 0
    return f"{inst}:{t}" + (":F4-g1-x0" if x0 else "")


def codec_tables(ctx: Ctx):
    rows, claims = build(ctx.tier, ctx.seed)
    ctx.log(f"codec tables: {len(rows)} rows from the private point_compression / g2_primitives copies, "
            f"{len(claims)} exhaustive claims")
    for r in rows[:: max(1, len(rows) // 6)][:6]:
        ctx.sample({k: (bytes(v).hex() if k == "s" and isinstance(v, list) else v) for k, v in r.items()})
    ctx.note("instances", INSTANCES)
    ctx.add_cov("rows_accepted_decodings", sum(1 for r in rows if r["op"][2] in "dp" and isinstance(r.get("r"), list) and r["r"]))
    ctx.add_cov("rows_refused_decodings", sum(1 for r in rows if r["op"][2] in "dp" and r.get("r") == []))
    tables.validate(ctx, "CodecTable", rows, invariants=["CurvesOK", "ClaimsOK", "RowsOK"],
                    files={"FIELDS": spec_fields(), "CURVES": spec_curves(), "CLAIMS": claims},
                    tag=_tag, result_keys=("r", "z", "s"),
                    describe=lambda r: str({k: (bytes(v).hex() if k == "s" and isinstance(v, list) else v)
                                            for k, v in r.items()}))
