"""Full-size add / double / neg of the curve modules checked in coordinates (CoordBig.tla): the harness abstracts the
raw output to affine integers with its own arithmetic and supplies the slope as a witness; TLC verifies the affine
law over BigNat."""
from __future__ import annotations

import importlib
import random

from . import tables
from .constants import limbs
from .core import Ctx, limited
from .grouptrace import SPECS, Api, f2_inv, f2_mul, f_inv


def _L(pt):
    return [] if pt == "INF" else [[limbs(c) for c in pt[0]], [limbs(c) for c in pt[1]]]


def _slope(p, d, A, B):
    """The slope the affine law prescribes (own arithmetic), zeros when the law does not divide."""
    z = (0,) * d
    if A == "INF" or B == "INF":
        return z
    sub = lambda a, b: tuple((x - y) % p for x, y in zip(a, b))       # noqa: E731
    mul = (lambda a, b: (a[0] * b[0] % p,)) if d == 1 else (lambda a, b: f2_mul(p, a, b))
    inv = (lambda a: (f_inv(p, a[0]),)) if d == 1 else (lambda a: f2_inv(p, a))
    if A[0] != B[0]:
        return mul(sub(B[1], A[1]), inv(sub(B[0], A[0])))
    if A[1] == B[1] and any(A[1]):
        x2 = mul(A[0], A[0])
        three = tuple((3 * c) % p for c in x2)
        return mul(three, inv(tuple((2 * c) % p for c in A[1])))
    return z


def module_rows(ctx: Ctx, mname, group, rng):
    api = Api(mname, group)
    m, p, d = api.m, api.p, api.deg
    quick = ctx.tier == "quick"
    rows = []
    G, O = api.G, api.O
    pts = [m.multiply(G, k) for k in (1, 2, 3, rng.randrange(4, api.r), rng.randrange(4, api.r))]
    pts += [api.from_affine(api.random_point(rng)) for _ in range(2 if quick else 8)]           # outside the subgroup too
    if api.fam == "opt":
        pts += [api.from_affine(api.affine(pts[3]), lam=[rng.randrange(2, p) for _ in range(d)])]   # another representative
    cases = [(pts[0], pts[0]), (pts[0], pts[1]), (pts[1], pts[0]), (pts[3], m.neg(pts[3])), (pts[2], O), (O, pts[2]), (O, O)]
    cases += [(rng.choice(pts), rng.choice(pts)) for _ in range(4 if quick else 30)]
    if api.fam == "opt":
        cases += [(pts[3], pts[-1]), (pts[-1], m.neg(pts[3]))]        # doubling / inverse reached through other representatives
    cv = api.curve

    def row(op, P, Q, fn):
        A, B = api.affine(P), (api.affine(Q) if Q is not None else "INF")
        r = {"cv": cv, "g": d, "op": op, "m": mname, "P": _L(A), "Q": _L(B),
             "w": [limbs(c) for c in _slope(p, d, A, B if op == "add" else A)]}
        try:
            r["r"] = _L(api.affine(limited(fn, 120)))
        except Exception as e:  # noqa: BLE001
            r["r"] = []
            r["exc"] = f"EXC:{type(e).__name__}:{e}"[:120]
        rows.append(r)
    for (P, Q) in cases:
        row("add", P, Q, lambda: m.add(P, Q))
    for P in pts[:4] + [O] + pts[-2:]:
        row("double", P, None, lambda: m.double(P))
        row("neg", P, None, lambda: m.neg(P))
    # the line functions of the pairing module (generic in the field): chord, tangent (also through two
    # representatives of one point), vertical, evaluated at another curve point
    pm = importlib.import_module(SPECS[mname][0] + "." + {"bn128": "bn128_pairing", "bls12_381": "bls12_381_pairing",
                                                         "optimized_bn128": "optimized_pairing",
                                                         "optimized_bls12_381": "optimized_pairing"}[mname])
    inv = (lambda a: (f_inv(p, a[0]),)) if d == 1 else (lambda a: f2_inv(p, a))
    mul = (lambda a, b: (a[0] * b[0] % p,)) if d == 1 else (lambda a, b: f2_mul(p, a, b))
    lcases = [(pts[0], pts[1], pts[2]), (pts[3], pts[3], pts[4]), (pts[3], m.neg(pts[3]), pts[0]), (pts[1], pts[4], pts[3])]
    if api.fam == "opt":
        lcases += [(pts[3], pts[-1], pts[0]), (pts[-1], m.neg(pts[3]), pts[1])]
    for (P1, P2, T) in lcases:
        A, B, C = api.affine(P1), api.affine(P2), api.affine(T)
        r = {"cv": cv, "g": d, "op": "line", "m": mname + ".linefunc", "P": _L(A), "Q": _L(B), "T": _L(C),
             "w": [limbs(c) for c in _slope(p, d, A, B)], "r": []}
        try:
            v = limited(lambda: pm.linefunc(P1, P2, T), 120)
            if isinstance(v, tuple):                       # optimized: numerator, denominator
                num, den = (tuple(int(c) for c in (x.coeffs if d == 2 else (x.n,))) for x in v)
                val = mul(num, inv(den))
            else:
                val = tuple(int(c) for c in (v.coeffs if d == 2 else (v.n,)))
            r["r"] = [[limbs(c) for c in val]]
        except Exception as e:  # noqa: BLE001
            r["exc"] = f"EXC:{type(e).__name__}:{e}"[:120]
        rows.append(r)
    return rows


def secp_rows(ctx: Ctx, rng):
    from py_ecc.secp256k1 import secp256k1 as s
    p = s.P
    quick = ctx.tier == "quick"
    rows = []

    def aff(pt):
        return "INF" if tuple(pt) == (0, 0) else ((int(pt[0]) % p,), (int(pt[1]) % p,))

    def jaff(j):
        x, y, z = (int(k) % p for k in j)
        if y == 0 or z == 0:
            return "INF"
        zi = f_inv(p, z)
        return ((x * zi * zi % p,), (y * zi ** 3 % p,))
    pts = [s.G, s.multiply(s.G, 2), s.multiply(s.G, 3), s.multiply(s.G, rng.randrange(4, s.N)), s.multiply(s.G, rng.randrange(4, s.N))]
    neg = lambda P: (P[0], (-P[1]) % p)          # noqa: E731
    cases = [(pts[0], pts[0]), (pts[0], pts[1]), (pts[3], neg(pts[3])), (pts[2], (0, 0)), ((0, 0), pts[2]), ((0, 0), (0, 0))]
    cases += [(rng.choice(pts), rng.choice(pts)) for _ in range(4 if quick else 30)]
    for (P, Q) in cases:
        A, B = aff(P), aff(Q)
        r = {"cv": "secp", "g": 1, "op": "add", "m": "secp256k1.add", "P": _L(A), "Q": _L(B), "w": [limbs(c) for c in _slope(p, 1, A, B)]}
        try:
            r["r"] = _L(aff(s.add(P, Q)))
        except Exception as e:  # noqa: BLE001
            r["r"], r["exc"] = [], f"EXC:{type(e).__name__}:{e}"[:120]
        rows.append(r)
        # the Jacobian layer on rescaled representatives
        z1, z2 = rng.randrange(2, p), rng.randrange(2, p)
        J = lambda R, z: (R[0] * z * z % p, R[1] * z ** 3 % p, z) if tuple(R) != (0, 0) else (0, 0, 1)      # noqa: E731
        r2 = dict(r, m="secp256k1.jacobian_add")
        r2.pop("exc", None)
        try:
            r2["r"] = _L(jaff(s.jacobian_add(J(P, z1), J(Q, z2))))
        except Exception as e:  # noqa: BLE001
            r2["r"], r2["exc"] = [], f"EXC:{type(e).__name__}:{e}"[:120]
        rows.append(r2)
    for P in pts:
        A = aff(P)
        z = rng.randrange(2, p)
        r = {"cv": "secp", "g": 1, "op": "double", "m": "secp256k1.jacobian_double", "P": _L(A), "Q": [], "w": [limbs(c) for c in _slope(p, 1, A, A)]}
        try:
            r["r"] = _L(jaff(s.jacobian_double((P[0] * z * z % p, P[1] * z ** 3 % p, z))))
        except Exception as e:  # noqa: BLE001
            r["r"], r["exc"] = [], f"EXC:{type(e).__name__}:{e}"[:120]
        rows.append(r)
    return rows


def coord_tables(ctx: Ctx, which=("curves", "secp"), only_opt=False):
    rng = random.Random(ctx.seed + 521)
    rows = []
    if "curves" in which:
        for mname in SPECS:
            if only_opt and SPECS[mname][1] != "opt":
                continue
            for group in (1, 2):
                try:
                    rows += module_rows(ctx, mname, group, rng)
                except Exception as e:  # noqa: BLE001 -- a failure while building operands is a row, not a crash
                    rows.append({"cv": SPECS[mname][2], "g": group, "op": "add", "m": mname, "P": [], "Q": [], "w": [], "r": [],
                                 "exc": f"EXC:{type(e).__name__}:{e}"[:120]})
    if "secp" in which:
        rows += secp_rows(ctx, rng)
    for r in rows:
        r.setdefault("exc", "")
    ctx.log(f"coordinates at full size: {len(rows)} add / double / neg calls of the real modules with slope witnesses")
    ctx.add_cov("full_size_coordinate_rows", len(rows))
    tables.validate(ctx, "CoordBig", rows, invariants=["RowsOK"], result_keys=(),
                    tag=lambda r: f"coordbig:{r['m']}:G{r['g']}:{r['op']}", describe=lambda r: f"{r['m']} G{r['g']} {r['op']} exc={r.get('exc')}")
