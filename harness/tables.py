"""Code -> spec: let TLC validate a table (ndjson, one recorded call per row)."""
from __future__ import annotations

import json
import re

from .core import Ctx, MachineryError


def write_ndjson(path, items):
    with open(path, "w") as fh:
        for it in items:
            fh.write(json.dumps(it, separators=(",", ":")))
            fh.write("\n")


def cfg(invariants, spec="Spec", constants=None, extra=""):
    out = [f"SPECIFICATION {spec}"]
    for k, v in (constants or {}).items():
        out.append(f"CONSTANT {k} = {v}")
    for inv in invariants:
        out.append(f"INVARIANT {inv}")
    out.append("CHECK_DEADLOCK FALSE")
    return "\n".join(out) + "\n" + extra


def validate(ctx: Ctx, module: str, rows: list, *, invariants, files: dict | None = None,
             name: str | None = None, tag=lambda r: "", describe=lambda r: json.dumps(r)[:400],
             expect_rows_ok="RowsOK", timeout=14400, env=None, java_opts=None,
             count_traces=True, workers=None, constants=None,
             result_keys=("r",), spec="Spec") -> bool:
    """Validate `rows` with spec module `module` (state variable i = row index).

    files: extra ndjson inputs {ENVNAME: list-of-items}.  Returns True iff TLC accepted all rows.
    Rows whose tag matches a committed known finding are validated in a separate run where a
    rejection prints KNOWN-FINDING instead of VIOLATION.
    """
    name = name or module
    if java_opts is None:      # heap: quick tables are a few hundred thousand rows, thorough ones up to a few million
        java_opts = "-Xss64m -Xmx12g" if ctx.tier == "quick" else "-Xss64m -Xmx24g"
    # Type-uniform rows: a result that is an exception (or any non-value) is moved to the `exc`
    # field, which every table spec tests BEFORE it touches the result (TLC cannot compare a
    # string with a tuple), so an unexpected exception is a rejected row, not a TLC error.
    for r in rows:
        exc = r.get("exc", "") or ""
        for key in result_keys:
            if isinstance(r.get(key), str):
                exc = exc or (r[key] if r[key].startswith("EXC:") else "BADVALUE:" + r[key][:80])
                r[key] = 0
        r["exc"] = exc
    known_keys = [k["key"] for k in ctx.known if k["property"] == ctx.pid and k.get("status") == "known"]
    main_rows, kf_rows = [], []
    for r in rows:
        t = tag(r)
        (kf_rows if t and any(k in t for k in known_keys) else main_rows).append(r)
    ok = True
    allpath = None
    if kf_rows:     # coverage claims index the unsplit table
        allpath = ctx.tmp / f"all_{name}.ndjson"
        write_ndjson(allpath, rows)
    for part, part_rows in (("", main_rows), ("kf", kf_rows)):
        if not part_rows:
            continue
        d = ctx.tmp / f"tbl_{name}{part}"
        d.mkdir(exist_ok=True)
        envv = {"TABLE": str(d / "table.ndjson")}
        envv["ALLROWS"] = str(allpath) if allpath else envv["TABLE"]
        write_ndjson(d / "table.ndjson", part_rows)
        for en, items in (files or {}).items():
            if part and en == "CLAIMS":
                items = []          # coverage claims are evaluated once, in the main part
            write_ndjson(d / f"{en}.ndjson", items)
            envv[en] = str(d / f"{en}.ndjson")
        envv.update(env or {})
        res = ctx.tlc(module, cfg(invariants, spec=spec, constants=constants), env=envv, name=name + part,
                      timeout=timeout, cont=bool(part), java_opts=java_opts, workers=workers, eval_as_violation=True,
                      quiet=bool(part))
        if part:
            ctx.log(f"TLC {name}{part}: {len(part_rows)} rows that carry the key of a committed known finding, "
                    f"{len(res.violations)} rejected (reported as KNOWN-FINDING, anything else as a violation)")
        if count_traces:
            ctx.traces += len(part_rows)
        if not res.violations and res.distinct < len(part_rows) + 1:
            raise MachineryError(
                f"{name}: TLC visited {res.distinct} states for {len(part_rows)} rows (vacuous run)")
        for v in res.violations:
            m = re.search(r"\bi = (\d+)", v["trace"][-1]) if v["trace"] else None
            row = part_rows[int(m.group(1)) - 1] if m and int(m.group(1)) >= 1 else None
            what = f"{name}: TLC rejected {v['kind']} {v['name']}" + (
                f" at row {describe(row)}" if row is not None else f" (trace: {v['trace'][-1:]})")
            if ctx.violation(f"{name}:{tag(row) if row is not None else v['name']}", what,
                             {"row": row, "invariant": v["name"], "module": module}):
                ok = False
    return ok
