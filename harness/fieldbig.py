"""Full-size field traces (C08, C14): the twelve built-in classes against FieldBig.tla (BigNat)."""
from __future__ import annotations

import random

from . import tables
from .constants import limbs
from .core import CallTimeout, Ctx, Guarded, limited


def classes():
    from py_ecc import fields as f
    out = []
    for curve, pre in (("bn", "bn128"), ("bls", "bls12_381")):
        for fam, fp in (("ref", ""), ("opt", "optimized_")):
            for d, suf in ((1, "FQ"), (2, "FQ2"), (12, "FQ12")):
                out.append((curve, fam, d, getattr(f, f"{fp}{pre}_{suf}")))
    return out


def _c(x, d):
    if d == 1:
        return [limbs(int(x.n))]
    return [limbs(int(c) if isinstance(c, int) else int(c.n)) for c in x.coeffs]


def _safe(fn, d):
    try:
        v = limited(fn, 300)
        return _c(v, d)
    except CallTimeout:
        raise       # non-termination: abort the job, reported by main
    except Exception as e:  # noqa: BLE001
        return f"EXC:{type(e).__name__}:{e}"[:120]


def rows(ctx: Ctx, fams=("ref", "opt")):
    from multiprocessing import Pool
    from .core import NCPU
    jobs = [(k, ctx.seed, ctx.tier) for k, (curve, fam, d, F) in enumerate(classes()) if fam in fams]
    with Pool(min(NCPU, len(jobs))) as pool:
        parts = pool.map(Guarded(_class_rows), jobs, chunksize=1)
    return [r for part in parts for r in part]


def _class_rows(job):
    k, seed, tier = job
    rng = random.Random(seed + 151 + 977 * k)
    quick = tier == "quick"
    out = []
    for curve, fam, d, F in classes()[k:k + 1]:
        p = F.field_modulus
        mk = (lambda c: F(c[0])) if d == 1 else (lambda c: F(list(c)))

        def rnd(sparse=False):
            if sparse:
                return [rng.randrange(p) if rng.random() < 0.3 else 0 for _ in range(d)]
            return [rng.randrange(p) for _ in range(d)]
        specials = [[0] * d, [1] + [0] * (d - 1), [p - 1] * d, [p - 1] + [0] * (d - 1)]
        nbin = {1: 10, 2: 6, 12: 2}[d] * (1 if quick else 5)
        pairs = [(rnd(), rnd()) for _ in range(nbin)] + [(rnd(True), rnd(True)) for _ in range(nbin // 2 + 1)]
        pairs += [(specials[2], specials[2]), (specials[1], rnd()), (rnd(), specials[0])]
        base = {"curve": curve, "fam": fam, "d": d}

        def add(op, **kw):
            r = dict(base)
            r.update({"op": op, "a": [], "b": [], "c": [], "k": {"sg": 1, "n": []}})
            r.update(kw)
            out.append(r)
        for (a, b) in pairs:
            x, y = mk(a), mk(b)
            A, B = _c(x, d), _c(y, d)
            add("add", a=A, b=B, r=_safe(lambda: x + y, d))
            add("sub", a=A, b=B, r=_safe(lambda: x - y, d))
            add("mul", a=A, b=B, r=_safe(lambda: x * y, d))
            add("div", a=A, b=B, r=_safe(lambda: x / y, d))
            try:
                add("eq", a=A, b=B, r=1 if (x == y) else 0)
                add("eq", a=A, b=A, r=1 if (x == mk(a)) else 0)
            except Exception as e:  # noqa: BLE001
                add("eq", a=A, b=B, r=f"EXC:{type(e).__name__}")
        for a in [rnd() for _ in range(3 if d < 12 else 1)] + specials[:2] + [rnd(True)]:
            x = mk(a)
            A = _c(x, d)
            add("neg", a=A, r=_safe(lambda: -x, d))
            add("inv", a=A, r=_safe((lambda: x.inv()) if d > 1 else (lambda: 1 / x), d))
            if fam == "opt":
                try:
                    add("sgn0", a=A, r=int(x.sgn0))
                except Exception as e:  # noqa: BLE001
                    add("sgn0", a=A, r=f"EXC:{type(e).__name__}")
            for k in (-3, p + 5, -(2 * p + 1), rng.randrange(-2 ** 400, 2 ** 400)):
                K = {"sg": -1 if k < 0 else 1, "n": limbs(abs(k))}
                add("imul", a=A, k=K, r=_safe(lambda: x * k, d))
                add("idiv", a=A, k=K, r=_safe(lambda: x / k, d))
                if d == 1:
                    add("iadd", a=A, k=K, r=_safe(lambda: x + k, d))
                    add("isub", a=A, k=K, r=_safe(lambda: x - k, d))
                    add("irsub", a=A, k=K, r=_safe(lambda: k - x, d))
        # exponentiation laws, exponents up to thousands of bits
        for a in [rnd()] + ([rnd(True)] if not quick or d < 12 else []) + [specials[0]]:
            x = mk(a)
            A = _c(x, d)
            add("pow0", a=A, r=_safe(lambda: x ** 0, d))
            add("pow1", a=A, r=_safe(lambda: x ** 1, d))
            add("pow2", a=A, r=_safe(lambda: x ** 2, d))
            for bits in ((64, 190), (381, 800), (2500, 2000)) if d < 12 or not quick else ((64, 800), (2500, 2000)):
                e1, e2 = rng.getrandbits(bits[0]) | 1, rng.getrandbits(bits[1]) | (1 << (bits[1] - 1))
                add("powadd", a=A, b=_safe(lambda: x ** e1, d), c=_safe(lambda: x ** e2, d), r=_safe(lambda: x ** (e1 + e2), d))
                r_ = out[-1]
                for key in ("b", "c"):
                    if isinstance(r_[key], str):
                        r_["r"] = r_[key]
                        r_[key] = []
                add("powmul", a=A, b=_safe(lambda: (x ** e1) ** e2, d), r=_safe(lambda: x ** (e1 * e2), d))
                r_ = out[-1]
                if isinstance(r_["b"], str):
                    r_["r"], r_["b"] = r_["b"], []
            add("powq1", a=A, r=_safe(lambda: x ** (p ** d - 1), d))
    return out


def big_tables(ctx: Ctx, fams=("ref", "opt")):
    rs = rows(ctx, fams)
    ctx.log(f"field full size: {len(rs)} operations of the built-in 254/381-bit classes")
    ctx.add_cov("full_size_field_rows", len(rs))
    ctx.sample({"full_size_field_row": {k: (v if not isinstance(v, list) else "limbs") for k, v in rs[5].items()}})
    tables.validate(ctx, "FieldBig", rs, invariants=["RowsOK"], tag=lambda r: f"fieldbig:{r['curve']}:{r['fam']}:{r['d']}:{r['op']}",
                    describe=lambda r: f"{r['curve']} {r['fam']} degree {r['d']} {r['op']} a={r['a']} b={r['b']} r={r['r']}"[:900])
