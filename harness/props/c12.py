"""C12 -- optimized pairings equal reference pairings; split final exponentiation exact."""
from .. import pairingtrace, toypairing


def run(ctx):
    pairingtrace.run_traces(ctx)
    # toy curve with embedding degree 12 (p = 1747, r = 241): TLC computes the Miller loop and the final
    # exponentiation itself; the bls12_381 / optimized_bls12_381 pairing code must return the same coefficients
    toypairing.toy_pairing(ctx, loops=False)
