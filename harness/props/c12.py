"""C12 -- optimized pairings equal reference pairings; split final exponentiation exact."""
from .. import pairingtrace


def run(ctx):
    pairingtrace.run_traces(ctx)
