"""C08 -- field axioms with canonical representatives."""
from .. import euclid, fieldbig, fields, polyeuclid, tables


def field_tables(ctx, families=("ref", "opt"), lite=False):
    cat, flds, rows, claims = fields.build_tables(ctx.tier, ctx.seed, families, log=ctx.log, lite=lite)
    ctx.log(f"{len(rows)} rows from the real classes over {len(flds)} fields, {len(claims)} exhaustive claims")
    for r in rows[:: max(1, len(rows) // 6)][:6]:
        ctx.sample({"field": cat[r["f"] - 1]["name"], **{k: v for k, v in r.items() if k != "f"}})
    ctx.note("fields", [f["name"] for f in cat])
    ctx.note("exhaustive_domains", len(claims))
    tables.validate(ctx, "FieldTable", rows, invariants=["FieldsOK", "ClaimsOK", "RowsOK"],
                    files={"FIELDS": flds, "CLAIMS": claims},
                    tag=lambda r: f"{cat[r['f'] - 1]['name']}:{r['fam']}:{r['op']}",
                    describe=lambda r: f"{cat[r['f'] - 1]['name']} {r}")


def run(ctx):
    field_tables(ctx)
    # full size: the twelve built-in 254/381-bit classes recomputed by TLC over BigNat
    fieldbig.big_tables(ctx)
    # step level: the extended-Euclid loop of prime_field_inv as a step machine; recorded loop states validated
    euclid.euclid_checks(ctx, which=("utils",))
    # step level: the polynomial extended-Euclid loop of FQP.inv (with the library's own "rounded" division) as a
    # step machine: invariant, no truncation, termination on every element of small fields; recorded loop states
    polyeuclid.poly_euclid_checks(ctx)
