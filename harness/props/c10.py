"""C10 -- hash_to_curve follows RFC 9380 and always lands in the prime-order subgroup."""
from .. import h2c, swu


def run(ctx):
    swu.toy_tables(ctx)
    swu.big_tables(ctx)
    h2c.h2c_tables(ctx)
