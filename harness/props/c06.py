"""C06 -- ECDSA: sign-then-recover returns the signer's key; signatures valid, low-s, deterministic."""
from .. import ecdsa


def run(ctx):
    ecdsa.model_check(ctx, ["SignInv"])
    ecdsa.toy_tables(ctx, what=("sign",))
    ecdsa.rfc6979(ctx)
    ecdsa.big(ctx)
