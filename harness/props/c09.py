"""C09 -- BLS outputs are the byte strings mandated by the IETF ciphersuites."""
from .. import wire


def run(ctx):
    wire.wire_tables(ctx)
