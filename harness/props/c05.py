"""C05 -- pairings are bilinear, non-degenerate, unit on infinity, refuse off-curve input."""
from .. import pairingtrace


def run(ctx):
    pairingtrace.run_traces(ctx)
