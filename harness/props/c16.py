"""C16 -- HKDF and KeyGen match RFC 5869 and the BLS draft for all inputs."""
from .. import hashing


def run(ctx):
    hashing.c16(ctx)
