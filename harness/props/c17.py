"""C17 -- subgroup membership test is exact and cofactor clearing lands in the subgroup."""
from .. import subgroup


def run(ctx):
    subgroup.subgroup_tables(ctx)
