"""C17 -- subgroup membership test is exact and cofactor clearing lands in the subgroup."""
from .. import constants, grouptrace, subgroup


def run(ctx):
    constants.check_constants(ctx, ("bls",))
    # full size: subgroup_check and clear_cofactor of the real module on a G + c T (torsion primes 3, 11 on
    # E(Fp); 13, 23 on E'(Fp2)), on all kinds of projective representatives, and on arbitrary curve points
    grouptrace.run_traces(ctx, [("optimized_bls12_381", 1), ("optimized_bls12_381", 2)], all_ells=True)
    subgroup.subgroup_tables(ctx)
