"""C18 -- secp256k1 point arithmetic equals the textbook group law."""
from .. import constants, grouptrace
from . import c07


def run(ctx):
    constants.check_constants(ctx, ("secp",))
    grouptrace.run_traces(ctx, ["secp"])        # full size: dlog tracking mod N (BigNat), negative and 512-bit scalars
    c07.curve_tables(ctx, secp=True, name="CurveTable_secp")
