"""C18 -- secp256k1 point arithmetic equals the textbook group law."""
from .. import constants, euclid, grouptrace
from . import c07


def run(ctx):
    constants.check_constants(ctx, ("secp",))
    grouptrace.run_traces(ctx, ["secp"])        # full size: dlog tracking mod N (BigNat), negative and 512-bit scalars
    c07.curve_tables(ctx, secp=True, name="CurveTable_secp")
    euclid.euclid_checks(ctx, which=("secp",))      # the inversion loop behind from_jacobian, step by step
