"""C18 -- secp256k1 point arithmetic equals the textbook group law."""
from . import c07


def run(ctx):
    c07.curve_tables(ctx, secp=True, name="CurveTable_secp")
