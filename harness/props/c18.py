"""C18 -- secp256k1 point arithmetic equals the textbook group law."""
from .. import constants, coordbig, curvemachine, euclid, grouptrace, mulrec
from . import c07


def run(ctx):
    constants.check_constants(ctx, ("secp",))
    grouptrace.run_traces(ctx, ["secp"])        # full size: dlog tracking mod N (BigNat), negative and 512-bit scalars
    c07.curve_tables(ctx, secp=True, name="CurveTable_secp")
    euclid.euclid_checks(ctx, which=("secp",))      # the inversion loop behind from_jacobian, step by step
    # group laws on all register files of secp-shaped toy curves; TLC programs (negative and large scalars) replayed
    # into the plain and the Jacobian API of a private secp256k1 copy
    curvemachine.run_exhaustive(ctx, only_secp=True)
    curvemachine.run_machine(ctx, only_secp=True)
    mulrec.checks(ctx, only_secp=True)      # jacobian_multiply's recursion (scalar reduction, halving), call by call
    coordbig.coord_tables(ctx, which=("secp",))      # full size, in coordinates (slope witnesses, BigNat)
