"""C13 -- projective / Jacobian formulas equal the affine law on every control path."""
from .. import coordbig, curvemachine, grouptrace
from . import c07


def run(ctx):
    # the transcribed formulas equal the affine law as polynomial identities over Z (grid argument, TLC)
    res = ctx.tlc("MC_ProjIdentities", "SPECIFICATION Spec\nINVARIANT IdentitiesHold\n", name="MC_ProjIdentities")
    for v in res.violations:
        ctx.violation("MC_ProjIdentities", "a transcribed projective / Jacobian formula is not the affine law "
                      "(polynomial identity fails on the grid)", {"trace": v["trace"][-2:]})
    # full size: operations on rescaled projective / Jacobian representatives give the same abstract element
    grouptrace.run_traces(ctx, [("optimized_bn128", 1), ("optimized_bn128", 2), ("optimized_bls12_381", 1),
                                ("optimized_bls12_381", 2), "secp"])
    # optimized modules: every representative (incl. common denominators and all representatives
    # of infinity) through add/double/neg/eq/is_on_curve/normalize and the projective line function;
    # the reference line function is validated alongside (same affine oracle).
    c07.curve_tables(ctx, mods=("optimized_bn128", "optimized_bls12_381", "bn128", "bls12_381"),
                     only_ops={"add", "double", "neg", "eq", "onc", "isinf", "norm", "pline", "line"},
                     name="CurveTable_proj")
    # secp256k1 Jacobian layer (private copy with toy constants)
    c07.curve_tables(ctx, secp=True, name="CurveTable_secp")
    # spec -> code: TLC-generated programs; projective / Jacobian representatives are carried from step to step as
    # the code produced them, the abstraction of every register must stay the spec's affine point
    curvemachine.run_machine(ctx)
    # full size, in coordinates: projective / Jacobian outputs abstracted and checked against the affine law (BigNat)
    coordbig.coord_tables(ctx, only_opt=True)
