"""C19 -- ECDSA recovery returns the algebraically determined key or refuses."""
from .. import ecdsa


def run(ctx):
    ecdsa.model_check(ctx, ["RecInv"])
    ecdsa.toy_tables(ctx, what=("recover",))
    ecdsa.recover_big(ctx)
