"""C20 -- public functions are pure: no mutation of inputs / constants, history independent."""
from .. import purity


def run(ctx):
    purity.run(ctx)
