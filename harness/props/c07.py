"""C07 -- curve operations form the standard group in all four curve modules."""
from .. import constants, coordbig, curvemachine, curves, grouptrace, mulrec, tables


def curve_tables(ctx, mods=None, only_ops=None, secp=False, name="CurveTable"):
    rows, claims = curves.build_tables(ctx.tier, ctx.seed, log=ctx.log, mods=mods, only_ops=only_ops) \
        if not secp else curves.secp_rows(ctx.tier, ctx.seed)
    ctx.log(f"{len(rows)} rows from the real curve functions, {len(claims)} exhaustive claims")
    for r in rows[:: max(1, len(rows) // 6)][:6]:
        ctx.sample(r)
    names = list(curves.CURVES)
    ctx.note("curves", names)
    tables.validate(ctx, "CurveTable", rows, invariants=["CurvesOK", "ClaimsOK", "RowsOK"], name=name,
                    files={"FIELDS": curves.spec_fields(), "CURVES": curves.spec_curves(), "CLAIMS": claims},
                    tag=lambda r: f"{r['m']}:{names[r['c'] - 1]}:{r['op']}",
                    describe=lambda r: f"{names[r['c'] - 1]} {r}")


def run(ctx):
    constants.check_constants(ctx, ("bls", "bn"))
    # full size: every module x base / twist group against the abstract group Z_r x Z_l (BigNat)
    grouptrace.run_traces(ctx, [(m, g) for m in grouptrace.SPECS for g in (1, 2, 12)])
    # full size, in coordinates: add / double / neg against the affine law with the slope as a verified witness
    coordbig.coord_tables(ctx, which=("curves",))
    curve_tables(ctx, only_ops={"add", "double", "neg", "mul", "eq", "onc", "isinf", "norm", "twist", "twadd"})
    # (A) the group laws on every register file over all points of small curves; (B) TLC-generated programs
    # replayed into the four modules, registers holding the representatives the code itself produced
    curvemachine.run_exhaustive(ctx)
    curvemachine.run_machine(ctx)
    # step level: the recursion of multiply as a step machine (MulRec.tla) and the recorded call trees
    mulrec.checks(ctx)
