"""C14 -- optimized field classes compute the same values as the reference field classes."""
from .. import fieldbig, machine, polyeuclid
from . import c08


def run(ctx):
    # (A) the field laws on every register file of tiny fields (Field.tla is a field there)
    machine.run_exhaustive(ctx)
    # (B) TLC-generated straight-line programs replayed into BOTH families: each must equal the
    # specification's register values after every step, hence each other
    machine.run_machine(ctx, families=("ref", "opt"))
    # (C) the complete operation tables of both families against the same operators of Field.tla
    c08.field_tables(ctx, lite=True)
    # full size: reference and optimized built-in classes on the same operands against the same BigNat model
    fieldbig.big_tables(ctx)
    # step level: FQP.inv of both families runs the same extended-Euclid steps (PolyEuclid.tla), state by state
    polyeuclid.poly_euclid_checks(ctx, model_check=False)
