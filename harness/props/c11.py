"""C11 -- point (de)serialization is a canonical bijection in the ZCash format."""
from .. import codec


def run(ctx):
    codec.codec_tables(ctx)
    codec.big_tables(ctx)
