"""C02 -- BLS ciphersuites against BlsModel.tla (see harness/bls.py)."""
from .. import bls


def run(ctx):
    bls.run(ctx, "C02")
