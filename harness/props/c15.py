"""C15 -- expand_message_xmd and hash_to_field match RFC 9380 for all parameters."""
from .. import hashing


def run(ctx):
    hashing.c15(ctx)
