"""C15 -- expand_message_xmd and hash_to_field match RFC 9380 for all parameters."""
from .. import h2c, hashing


def run(ctx):
    hashing.c15(ctx)
    # full size: hash_to_field with the 381-bit modulus, reduction recomputed by TLC in BigNat
    h2c.h2c_tables(ctx, only=("h2f",))
