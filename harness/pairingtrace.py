"""Full-size pairing traces (C05, C12) validated by PairingTrace.tla (bilinear map in the exponent)."""
from __future__ import annotations

import importlib
import json
import random
import re
from concurrent.futures import ThreadPoolExecutor
from multiprocessing import Pool

from .constants import limbs
from .core import Ctx, Guarded, MachineryError, NCPU

MODS = {
    "bn": (("bn128", "py_ecc.bn128", "ref"), ("optimized_bn128", "py_ecc.optimized_bn128", "opt")),
    "bls": (("bls12_381", "py_ecc.bls12_381", "ref"), ("optimized_bls12_381", "py_ecc.optimized_bls12_381", "opt")),
}


def _coef(x):
    return tuple(int(c) if isinstance(c, int) else int(c.n) for c in x.coeffs)


class T:
    def __init__(self, curve, rng):
        self.curve, self.rng = curve, rng
        self.events, self.regs, self.ids = [], [], {}
        self.dead = False

    def gid(self, x):
        k = _coef(x)
        if k not in self.ids:
            self.ids[k] = len(self.ids) + 1
        return self.ids[k]

    def ev(self, **kw):
        e = {"op": "", "m": "", "d": 0, "a": 0, "b": 0, "n": [], "sg": 1, "id": 0, "id2": 0, "res": -1, "exc": ""}
        e.update(kw)
        self.events.append(e)

    def prod(self, op, m, fn, a=0, b=0, n=None, gt=False):
        if self.dead:
            return 0
        try:
            v = fn()
            i = self.gid(v) if gt else 0
        except Exception as ex:  # noqa: BLE001
            self.ev(op=op, m=m, a=a, b=b, exc=f"EXC:{type(ex).__name__}:{ex}"[:140])
            self.dead = True
            return 0
        self.regs.append(v)
        self.ev(op=op, m=m, d=len(self.regs), a=a, b=b, n=limbs(abs(n)) if n is not None else [],
                sg=-1 if (n or 0) < 0 else 1, id=i)
        return len(self.regs)

    def R(self, i):
        return self.regs[i - 1]


def build(job):
    curve, part, seed, tier = job
    rng = random.Random(seed)
    quick = tier == "quick"
    (rname, rpkg, _), (oname, opkg, _) = MODS[curve]
    ref, opt = importlib.import_module(rpkg), importlib.import_module(opkg)
    r, p = ref.curve_order, ref.field_modulus
    t = T(curve, rng)

    def to_opt1(P):     # reference affine point -> optimized projective point (same coordinates, z = 1)
        return None

    # scalar pairs (a for G1, b for G2); part 0 carries the order facts
    if part == 0:
        pairs = [(1, 1), (2, 1), (1, 2), (r - 1, 1), (0, 1), (1, 0), (r, 1), (rng.randrange(1, r), rng.randrange(1, r))]
    else:
        pairs = [((1 << 300) + (1 << 256) + rng.randrange(1, r), 3),        # a scalar wider than a 256-bit word
                 (rng.randrange(1, r), rng.randrange(1, r)), (2, 3), (r - 1, r - 1), (r + 1, 2), (3, r - 2)]
        if not quick:
            pairs += [(rng.randrange(1, r), rng.randrange(1, r)) for _ in range(3)]
    one_o = t.prod("one", oname, lambda: opt.FQ12.one(), gt=True)
    one_r = t.prod("one", rname, lambda: ref.FQ12.one(), gt=True)
    gts = []
    nref = 0
    # the trace decides EQUALITIES between registers: every pairing value e(b G2, a G1) is therefore produced a
    # second time along an independent path - e(G2, G1)^(a b) by field exponentiation
    g1_0 = t.prod("g1", oname, lambda: opt.G1, n=1)
    g2_0 = t.prod("g2", oname, lambda: opt.G2, n=1)
    gen_gt = t.prod("pair", oname, lambda: opt.pairing(t.R(g2_0), t.R(g1_0)), a=g2_0, b=g1_0, gt=True)
    for (a, b) in pairs:
        if gen_gt and a % r and b % r:
            k_ = a * b % r
            t.prod("gtpow", oname, lambda: t.R(gen_gt) ** k_, a=gen_gt, n=k_, gt=True)
        # the same scalars through both modules
        po = t.prod("g1", oname, lambda: opt.multiply(opt.G1, a), n=a)
        qo = t.prod("g2", oname, lambda: opt.multiply(opt.G2, b), n=b)
        eo = t.prod("pair", oname, lambda: opt.pairing(t.R(qo), t.R(po)), a=qo, b=po, gt=True)
        gts.append(eo)
        # a rescaled projective representative must give the same value
        if not t.dead and not opt.is_inf(t.R(po)) and not opt.is_inf(t.R(qo)):
            lam = opt.FQ(rng.randrange(2, p))
            lam2 = opt.FQ2([rng.randrange(p), rng.randrange(1, p)])
            P2 = tuple(c * lam for c in t.R(po))
            Q2 = tuple(c * lam2 for c in t.R(qo))
            ps = t.prod("add", oname, lambda: P2, a=po, b=0) if False else 0
            if rng.random() < 0.7:
                i1 = t.prod("g1", oname, lambda: P2, n=a)
                i2 = t.prod("g2", oname, lambda: Q2, n=b)
                gts.append(t.prod("pair", oname, lambda: opt.pairing(t.R(i2), t.R(i1)), a=i2, b=i1, gt=True))
        # two-step form
        pre = t.prod("prepair", oname, lambda: opt.pairing(t.R(qo), t.R(po), final_exponentiate=False), a=qo, b=po)
        gts.append(t.prod("fe", oname, lambda: opt.final_exponentiate(t.R(pre)), a=pre, gt=True))
        if nref < (3 if quick else 6):
            nref += 1
            pr = t.prod("g1", rname, lambda: ref.multiply(ref.G1, a), n=a)
            qr = t.prod("g2", rname, lambda: ref.multiply(ref.G2, b), n=b)
            gts.append(t.prod("pair", rname, lambda: ref.pairing(t.R(qr), t.R(pr)), a=qr, b=pr, gt=True))
    gts = [g for g in gts if g]
    if part == 0 and gts and not t.dead:
        g = gts[0]       # e(G2, G1)
        gts.append(t.prod("gtpow", oname, lambda: t.R(g) ** r, a=g, n=r, gt=True))          # g^r = 1
        gts.append(t.prod("gtpow", oname, lambda: t.R(g) ** (r - 1), a=g, n=r - 1, gt=True))
        gts.append(t.prod("gtinv", oname, lambda: t.R(g).inv(), a=g, gt=True))
        k = rng.randrange(2, r)
        gts.append(t.prod("gtpow", oname, lambda: t.R(g) ** k, a=g, n=k, gt=True))
        pk = t.prod("g1", oname, lambda: opt.multiply(opt.G1, k), n=k)
        q1 = t.prod("g2", oname, lambda: opt.G2, n=1)
        gts.append(t.prod("pair", oname, lambda: opt.pairing(t.R(q1), t.R(pk)), a=q1, b=pk, gt=True))   # = g^k
        # sums in either argument, negation
        p1 = t.prod("g1", oname, lambda: opt.multiply(opt.G1, 5), n=5)
        p2 = t.prod("g1", oname, lambda: opt.multiply(opt.G1, k), n=k)
        ps = t.prod("add", oname, lambda: opt.add(t.R(p1), t.R(p2)), a=p1, b=p2)
        gts.append(t.prod("pair", oname, lambda: opt.pairing(t.R(q1), t.R(ps)), a=q1, b=ps, gt=True))
        # the same point in two projective representatives, added (doubling reached through add), then paired
        p5a = t.prod("g1", oname, lambda: opt.add(opt.multiply(opt.G1, 2), opt.multiply(opt.G1, 3)), n=5)
        pd = t.prod("add", oname, lambda: opt.add(t.R(p1), t.R(p5a)), a=p1, b=p5a)
        gts.append(t.prod("pair", oname, lambda: opt.pairing(t.R(q1), t.R(pd)), a=q1, b=pd, gt=True))
        lamq = opt.FQ2([rng.randrange(p), rng.randrange(1, p)])
        q1s = t.prod("g2", oname, lambda: tuple(c * lamq for c in opt.G2), n=1)
        qd = t.prod("add", oname, lambda: opt.add(t.R(q1), t.R(q1s)), a=q1, b=q1s)
        gts.append(t.prod("pair", oname, lambda: opt.pairing(t.R(qd), t.R(p1)), a=qd, b=p1, gt=True))
        qa = t.prod("g2", oname, lambda: opt.multiply(opt.G2, 7), n=7)
        qs = t.prod("add", oname, lambda: opt.add(t.R(qa), t.R(q1)), a=qa, b=q1)
        gts.append(t.prod("pair", oname, lambda: opt.pairing(t.R(qs), t.R(p1)), a=qs, b=p1, gt=True))
        qn = t.prod("neg", oname, lambda: opt.neg(t.R(qa)), a=qa)
        gts.append(t.prod("pair", oname, lambda: opt.pairing(t.R(qn), t.R(p1)), a=qn, b=p1, gt=True))
        pn = t.prod("neg", oname, lambda: opt.neg(t.R(p1)), a=p1)
        gts.append(t.prod("pair", oname, lambda: opt.pairing(t.R(qa), t.R(pn)), a=qa, b=pn, gt=True))
        # infinity in either slot, several representatives
        for Z in (opt.Z1, (opt.FQ(3), opt.FQ(5), opt.FQ(0)), (opt.FQ(0), opt.FQ(0), opt.FQ(0))):
            z1 = t.prod("g1", oname, lambda: Z, n=0)
            gts.append(t.prod("pair", oname, lambda: opt.pairing(t.R(q1), t.R(z1)), a=q1, b=z1, gt=True))
        z2 = t.prod("g2", oname, lambda: opt.Z2, n=0)
        gts.append(t.prod("pair", oname, lambda: opt.pairing(t.R(z2), t.R(p1)), a=z2, b=p1, gt=True))
        # reference module: the same point held in two distinct objects, added (doubling reached through add), paired
        r5a = t.prod("g1", rname, lambda: ref.multiply(ref.G1, 5), n=5)
        r5b = t.prod("g1", rname, lambda: ref.add(ref.multiply(ref.G1, 2), ref.multiply(ref.G1, 3)), n=5)
        rd = t.prod("add", rname, lambda: ref.add(t.R(r5a), t.R(r5b)), a=r5a, b=r5b)
        rq1 = t.prod("g2", rname, lambda: ref.G2, n=1)
        gts.append(t.prod("pair", rname, lambda: ref.pairing(t.R(rq1), t.R(rd)), a=rq1, b=rd, gt=True))
        zr1 = t.prod("g1", rname, lambda: ref.Z1, n=0)
        qr1 = t.prod("g2", rname, lambda: ref.G2, n=1)
        gts.append(t.prod("pair", rname, lambda: ref.pairing(t.R(qr1), t.R(zr1)), a=qr1, b=zr1, gt=True))
        gts = [g for g in gts if g]
    # products and the split final exponentiation over 2..6 factors (optimized module)
    if not t.dead:
        pres, prods = [], []
        for _ in range(2 if quick else 5):
            n = rng.randrange(2, 7)
            acc_pre, acc_gt = 0, 0
            for _ in range(n):
                a, b = rng.randrange(1, r), rng.randrange(1, r)
                po = t.prod("g1", oname, lambda: opt.multiply(opt.G1, a), n=a)
                qo = t.prod("g2", oname, lambda: opt.multiply(opt.G2, b), n=b)
                pre = t.prod("prepair", oname, lambda: opt.pairing(t.R(qo), t.R(po), final_exponentiate=False), a=qo, b=po)
                e1 = t.prod("pair", oname, lambda: opt.pairing(t.R(qo), t.R(po)), a=qo, b=po, gt=True)
                acc_pre = pre if not acc_pre else t.prod("premul", oname, lambda: t.R(acc_pre) * t.R(pre), a=acc_pre, b=pre)
                acc_gt = e1 if not acc_gt else t.prod("gtmul", oname, lambda: t.R(acc_gt) * t.R(e1), a=acc_gt, b=e1, gt=True)
            t.prod("fe", oname, lambda: opt.final_exponentiate(t.R(acc_pre)), a=acc_pre, gt=True)
    # refusal of points that are not on their curve (all four modules' entry points)
    if part == 0 and not t.dead:
        for (m, nm, aff) in ((opt, oname, False), (ref, rname, True)):
            G1b = (m.G1[0], m.G1[1] + m.FQ(1)) + (() if aff else (m.FQ(1),))
            G2b = (m.G2[0] + m.FQ2([1, 0]), m.G2[1]) + (() if aff else (m.FQ2.one(),))
            for (Q, Pp) in ((m.G2, G1b), (G2b, m.G1), (G2b, m.Z1), (m.Z2, G1b), (G2b, G1b),
                            (G2b, m.multiply(m.G1, 5)), (m.multiply(m.G2, 5), G1b)):
                try:
                    m.pairing(Q, Pp)
                    t.ev(op="refuse", m=nm, res=0)
                except Exception:  # noqa: BLE001 -- any error is a refusal
                    t.ev(op="refuse", m=nm, res=1)
            # valid call, refused call with the next call's Q (resp. P), valid call: a refusal must leave nothing behind
            g1_ = t.prod("g1", nm, lambda: m.G1, n=1)
            g2_ = t.prod("g2", nm, lambda: m.G2, n=1)
            t.prod("pair", nm, lambda: m.pairing(t.R(g2_), t.R(g1_)), a=g2_, b=g1_, gt=True)
            q2_ = t.prod("g2", nm, lambda: m.multiply(m.G2, 2), n=2)
            p3_ = t.prod("g1", nm, lambda: m.multiply(m.G1, 3), n=3)
            for (Q, Pp) in ((t.R(q2_), G1b), (G2b, t.R(p3_))):
                try:
                    m.pairing(Q, Pp)
                    t.ev(op="refuse", m=nm, res=0)
                except Exception:  # noqa: BLE001
                    t.ev(op="refuse", m=nm, res=1)
            t.prod("pair", nm, lambda: m.pairing(t.R(q2_), t.R(g1_)), a=q2_, b=g1_, gt=True)
            t.prod("pair", nm, lambda: m.pairing(t.R(g2_), t.R(p3_)), a=g2_, b=p3_, gt=True)
    # exponentiation identities on arbitrary FQ12 elements
    if not t.dead:
        E = (p ** 12 - 1) // r
        xs = [opt.FQ12.zero(), opt.FQ12.one(), opt.FQ12([0, 1] + [0] * 10), opt.FQ12([rng.randrange(p) if i % 5 == 0 else 0 for i in range(12)]),
              opt.FQ12([rng.randrange(p) for _ in range(12)])]
        # elements of the cyclotomic subgroup / of G_T (norm one over Fp6): x^(p^6 - 1), an already exponentiated
        # value and its square - "easy part" shortcuts of a final exponentiation go wrong here
        if part == 0:
            try:
                x0 = opt.FQ12([rng.randrange(p) for _ in range(12)])
                cyc = x0 ** (p ** 6 - 1)
                gt = x0 ** E
                xs[3:3] = [cyc, gt, gt * gt]
            except Exception:  # noqa: BLE001 -- judged by the rows below
                pass
        # structured supports: monomials, subfield-like supports (w^6; even powers; multiples of 3), pairs
        sup = [[k] for k in range(12)] + [[0, 6], [6], [0, 2, 4, 6, 8, 10], [0, 3, 6, 9], [0, 4, 8], [0, 1], [1, 7], [0, 6, 11]]
        sup += [sorted(rng.sample(range(12), rng.randrange(2, 6))) for _ in range(6 if quick else 40)]
        shaped = []
        for sp in sup:
            for one_first in (False, True):
                cs = [0] * 12
                for j, k in enumerate(sp):
                    cs[k] = 1 if (one_first and j == 0) else rng.randrange(1, p)
                shaped.append(opt.FQ12(cs))
        rng.shuffle(shaped)
        take = (len(shaped) // 3 + 1)
        shaped = shaped[part * take:(part + 1) * take] if part < 3 else shaped[:take]
        for k, x in enumerate((xs if part == 0 else xs[-1:]) + shaped):
            try:
                if k < 8:
                    t.ev(op="fe_any", m=oname, n=limbs(E), id=t.gid(opt.final_exponentiate(x)), id2=t.gid(x ** E))
                if curve == "bls":
                    from py_ecc.optimized_bls12_381 import optimized_pairing as op
                    t.ev(op="frob", m=oname, n=limbs(p), id=t.gid(op.exp_by_p(x)), id2=t.gid(x ** p))
            except Exception as ex:  # noqa: BLE001
                t.ev(op="fe_any", m=oname, exc=f"EXC:{type(ex).__name__}:{ex}"[:140])
                break
        if part == 0:
            xr = ref.FQ12([rng.randrange(p) for _ in range(12)])
            try:
                t.ev(op="fe_any", m=rname, n=limbs(E), id=t.gid(ref.final_exponentiate(xr)), id2=t.gid(xr ** E))
            except Exception as ex:  # noqa: BLE001
                t.ev(op="fe_any", m=rname, exc=f"EXC:{type(ex).__name__}:{ex}"[:140])
    return {"name": f"{curve}_{part}", "params": {"curve": curve}, "events": t.events, "part": part}


CFG_ORDER = "SPECIFICATION Spec\nINVARIANT Accepted\nINVARIANT Done\nCHECK_DEADLOCK FALSE\n"


def run_traces(ctx: Ctx, curves=("bn", "bls")):
    parts = 3 if ctx.tier == "quick" else 8
    jobs = [(c, k, ctx.seed + 300 + 31 * k + (7 if c == "bn" else 0), ctx.tier) for c in curves for k in range(parts)]
    with Pool(min(NCPU, len(jobs))) as pool:
        traces = pool.map(Guarded(build), jobs, chunksize=1)
    ctx.log(f"pairing traces: {len(traces)} traces, {sum(len(t['events']) for t in traces)} events, "
            f"{sum(1 for t in traces for e in t['events'] if e['op'] in ('pair', 'prepair'))} pairings of the real modules")

    def validate(tr):
        d = ctx.tmp / f"pt_{tr['name']}"
        d.mkdir(exist_ok=True)
        (d / "trace.ndjson").write_text("".join(json.dumps(e, separators=(",", ":")) + "\n" for e in tr["events"]))
        (d / "params.ndjson").write_text(json.dumps(tr["params"]) + "\n")
        cfg = CFG_ORDER if tr["part"] == 0 else CFG_ORDER.replace("INVARIANT Done\n", "")
        res = ctx.tlc("PairingTrace", cfg, env={"TRACE": str(d / "trace.ndjson"), "PARAMS": str(d / "params.ndjson")},
                      workers=1, name=f"PairingTrace_{tr['name']}", quiet=True, timeout=3400)
        return tr, res

    with ThreadPoolExecutor(NCPU) as ex:
        results = list(ex.map(validate, traces))
    for tr, res in results:
        n = len(tr["events"])
        ctx.traces += 1
        ctx.add_cov("pairing_trace_events", n)
        if res.violations:
            v = res.violations[0]
            mm = re.search(r"\bl = (\d+)", v["trace"][-1]) if v["trace"] else None
            li = int(mm.group(1)) - 1 if mm else 0
            e = tr["events"][li - 1] if 1 <= li <= n else None
            why = "the trace lacks the order facts (g # 1, g^r = 1)" if v["name"] == "Done" else \
                "not what the bilinear-map model predicts"
            ctx.violation(f"PairingTrace:{tr['name']}:{e['op'] if e else v['name']}",
                          f"PairingTrace {tr['name']}: event {li} {({k: x for k, x in e.items() if k != 'n'}) if e else ''} is {why}",
                          {"trace": tr["name"], "event_index": li, "event": e, "prefix_ops": [x["op"] for x in tr["events"][:li]]})
        ctx.log(f"PairingTrace {tr['name']}: {n} events, {'REJECTED' if res.violations else 'accepted'} ({res.wall:.0f}s)")
    if traces:
        ctx.sample({"pairing_trace": traces[0]["name"], "events": [
            {k: v for k, v in e.items() if v not in (0, [], "", -1) and k != "n"} for e in traces[0]["events"][2:8]]})
