"""IETF byte strings (C09): component-call dataflow of SkToPk / Sign / PopProve / Aggregate (BlsWire.tla)."""
from __future__ import annotations

import hashlib
import random

from . import tables, toy
from .constants import limbs
from .core import Ctx


def _coeffs(x):
    return tuple(int(c) for c in x.coeffs) if hasattr(x, "coeffs") else (int(x.n),)


def rows(ctx: Ctx):
    from .grouptrace import f2_inv, f2_mul, f_inv
    from py_ecc.optimized_bls12_381 import field_modulus as p, curve_order as r
    rng = random.Random(ctx.seed + 131)
    quick = ctx.tier == "quick"
    cs = toy.private_module("py_ecc/bls/ciphersuites.py", "py_ecc.bls")
    ids = {}
    calls = []

    def pid(P):
        x, y, z = (_coeffs(c) for c in P)
        if not any(z):
            key = "INF"
        elif len(z) == 1:
            zi = f_inv(p, z[0])
            key = (x[0] * zi % p, y[0] * zi % p)
        else:
            zi = f2_inv(p, z)
            key = (f2_mul(p, x, zi), f2_mul(p, y, zi))
        if key not in ids:
            ids[key] = len(ids) + 1
        return ids[key]

    def ev(**kw):
        e = {"fn": "", "p": 0, "q": 0, "n": [], "msg": [], "dst": [], "hash": "", "out": 0, "bytes": []}
        e.update(kw)
        calls.append(e)

    need = ("multiply", "hash_to_G2", "G1_to_pubkey", "G2_to_signature", "signature_to_G2", "add", "G1", "Z2")
    if not all(hasattr(cs, k) for k in need):
        return None          # the module no longer routes through these names: interception is not possible
    o_mul, o_h2g, o_g1pk, o_g2sig, o_sig2g, o_add = cs.multiply, cs.hash_to_G2, cs.G1_to_pubkey, cs.G2_to_signature, \
        cs.signature_to_G2, cs.add

    def multiply(P, n):
        res = o_mul(P, n)
        ev(fn="multiply", p=pid(P), n=limbs(n) if isinstance(n, int) and n >= 0 else [32767] * 40, out=pid(res))
        return res

    def hash_to_G2(msg, dst, hf):
        res = o_h2g(msg, dst, hf)
        name = "sha256" if hf is hashlib.sha256 else getattr(hf, "__name__", str(hf))
        ev(fn="hash_to_G2", msg=list(msg), dst=list(dst), hash=name, out=pid(res))
        return res

    def G1_to_pubkey(P):
        res = o_g1pk(P)
        ev(fn="G1_to_pubkey", p=pid(P), bytes=list(res))
        return res

    def G2_to_signature(P):
        res = o_g2sig(P)
        ev(fn="G2_to_signature", p=pid(P), bytes=list(res))
        return res

    def signature_to_G2(s):
        res = o_sig2g(s)
        ev(fn="signature_to_G2", bytes=list(s), out=pid(res))
        return res

    def add(P, Q):
        res = o_add(P, Q)
        ev(fn="add", p=pid(P), q=pid(Q), out=pid(res))
        return res
    cs.multiply, cs.hash_to_G2, cs.G1_to_pubkey, cs.G2_to_signature, cs.signature_to_G2, cs.add = \
        multiply, hash_to_G2, G1_to_pubkey, G2_to_signature, signature_to_G2, add
    suites = {"basic": cs.G2Basic, "aug": cs.G2MessageAugmentation, "pop": cs.G2ProofOfPossession}
    g1, z2 = pid(cs.G1), pid(cs.Z2)
    out = []
    sks = [1, 2, r - 1, r - 2, rng.randrange(1, r), rng.getrandbits(64) | 1] + \
        [rng.randrange(1, r) for _ in range(2 if quick else 12)]
    msgs = [b"", b"\x00", b"abc", bytes(range(64)), rng.randbytes(55), rng.randbytes(300)]

    def run(api, suite, sk, msg, sigs, fn):
        del calls[:]
        row = {"api": api, "suite": suite, "sk": limbs(sk), "msg": list(msg), "sigs": [list(s) for s in sigs],
               "g1": g1, "z2": z2, "mode": "calls", "exp": []}
        try:
            ret = fn()
            row["ret"] = list(ret)
        except Exception as e:  # noqa: BLE001
            row["ret"] = f"EXC:{type(e).__name__}:{e}"[:120]
        row["calls"] = list(calls)
        out.append(row)
        return row["ret"]

    # refused calls first (invalid keys, empty aggregate): whatever they do on the error path must not change the
    # bytes of the calls that follow in this interpreter
    for bad in (0, r, -1, "1"):
        for fn in (lambda: suites["pop"].PopProve(bad), lambda: suites["basic"].Sign(bad, b"m"),
                   lambda: suites["aug"].SkToPk(bad), lambda: suites["pop"].Aggregate([])):
            try:
                fn()
            except Exception:  # noqa: BLE001
                pass
    allsigs = []
    for sk in sks:
        for sname, S in suites.items():
            pkb = run("SkToPk", sname, sk, b"", [], lambda: S.SkToPk(sk))
            extra = []
            if isinstance(pkb, list) and (sname == "aug" or sk == sks[4]):
                # messages that begin with (or are) the signer's own public key: the augmentation suite still
                # prefixes the key, the others sign the bytes as given
                extra = [bytes(pkb), bytes(pkb) + b"xyz", bytes(pkb) * 2]
            for m in (msgs if sk == sks[4] else rng.sample(msgs, 2)) + extra:
                sg = run("Sign", sname, sk, m, [], lambda: S.Sign(sk, m))
                if isinstance(sg, list):
                    allsigs.append(bytes(sg))
        run("PopProve", "pop", sk, b"", [], lambda: suites["pop"].PopProve(sk))
    for n in ([1, 2, 3, 5] if quick else [1, 2, 3, 4, 5, 8, 16, 32]):
        for sname, S in suites.items():
            ss = [rng.choice(allsigs) for _ in range(n)]
            if n >= 2 and sname != "aug":
                ss[1] = ss[0]                       # the same signature more than once
            run("Aggregate", sname, 0, b"", ss, lambda: S.Aggregate(ss))
    # sums that cancel: signatures by sk and r - sk on one message (the result is the identity, however it is represented)
    for sk in (sks[4], 5):
        for sname in ("basic", "pop"):
            S = suites[sname]
            try:
                ss = [bytes(S.Sign(sk, b"cancel")), bytes(S.Sign(r - sk, b"cancel"))]
            except Exception:  # noqa: BLE001 -- judged by the Sign rows
                continue
            run("Aggregate", sname, 0, b"", ss, lambda: S.Aggregate(ss))
            ss3 = ss + [rng.choice(allsigs)]
            run("Aggregate", sname, 0, b"", ss3, lambda: S.Aggregate(ss3))
    # Aggregate does not check the subgroup: encodings of twist points whose y has a zero real or imaginary part
    # (x in Fp) take the other branch of the sign rule; one of them alone must come back unchanged
    for s_ in special_sigs(rng, 3 if quick else 12):
        for ss in ([s_], [s_, s_], [s_, rng.choice(allsigs)]):
            run("Aggregate", "basic", 0, b"", ss, lambda: suites["basic"].Aggregate(ss))
    return out


def special_sigs(rng, count):
    """96-byte encodings (made by the library's own G2_to_signature) of points of E'(Fp2) with x in Fp, hence y
    real or purely imaginary.  Input generation only."""
    from py_ecc import optimized_bls12_381 as ob
    from .grouptrace import real_y_twist_points
    p = ob.field_modulus
    out = []
    for x, y in real_y_twist_points(p, rng, count):
        # written out from the ZCash rule (not with the library's encoder): compression flag, sign of the
        # lexicographically larger y - imaginary part first, the real part when the imaginary part is zero
        for yy in (y, ((-y[0]) % p, (-y[1]) % p)):
            a = 1 if (yy[1] > (p - 1) // 2 or (yy[1] == 0 and yy[0] > (p - 1) // 2)) else 0
            out.append(((1 << 383) | (a << 381) | x[1]).to_bytes(48, "big") + x[0].to_bytes(48, "big"))
    return out


def plan_rows(ctx: Ctx, plans):
    """spec -> code: interpret the plans TLC printed with the library's component functions and compare with
    the real (unwrapped) API."""
    import hashlib as hl
    from py_ecc import optimized_bls12_381 as ob
    from py_ecc.bls import G2Basic, G2MessageAugmentation, G2ProofOfPossession
    from py_ecc.bls import g2_primitives as g2p, hash_to_curve as h2c
    from py_ecc.optimized_bls12_381 import curve_order as r
    rng = random.Random(ctx.seed + 137)
    quick = ctx.tier == "quick"
    suites = {"basic": G2Basic, "aug": G2MessageAugmentation, "pop": G2ProofOfPossession}

    def interp(plan, env):
        for st in plan:
            a = [env[x] for x in st["a"]]
            f = st["f"]
            if f == "literal":
                v = bytes(st["lit"])
            elif f == "multiply":
                v = ob.multiply(a[0], a[1])
            elif f == "G1_to_pubkey":
                v = bytes(g2p.G1_to_pubkey(a[0]))
            elif f == "G2_to_signature":
                v = bytes(g2p.G2_to_signature(a[0]))
            elif f == "hash_to_G2_sha256":
                v = h2c.hash_to_G2(a[0], a[1], hl.sha256)
            elif f == "concat":
                v = a[0] + a[1]
            elif f == "copy":
                v = a[0]
            elif f == "map_signature_to_G2":
                v = [g2p.signature_to_G2(x) for x in a[0]]
            elif f == "sum_G2":
                v = ob.Z2
                for x in a[0]:
                    v = ob.add(v, x)
            else:
                raise ValueError(f)
            env[st["o"]] = v
        return env["OUT"]

    sks = [1, 2, r - 1, r - 2, 2 ** 254, 2 ** 254 + 12345, 2 ** 254 - 1, rng.randrange(2 ** 254, r), rng.randrange(1, 2 ** 254)] + \
        [rng.randrange(1, r) for _ in range(2 if quick else 20)]
    msgs = [b"", b"\x00", b"abc", bytes(range(64)), rng.randbytes(55), rng.randbytes(300)]
    byapi = {(p["api"], p["suite"]): p["plan"] for p in plans}
    out = []
    sigpool = []
    for sk in sks:
        for sname, S in suites.items():
            for api in ("SkToPk", "Sign", "PopProve"):
                if (api, sname) not in byapi:
                    continue
                for m in ([b""] if api != "Sign" else rng.sample(msgs, 2)):
                    row = {"api": api, "suite": sname, "mode": "plan", "sk": limbs(sk), "msg": list(m), "sigs": [],
                           "calls": [], "g1": 0, "z2": 0}
                    try:
                        got = {"SkToPk": lambda: S.SkToPk(sk), "Sign": lambda: S.Sign(sk, m),
                               "PopProve": lambda: S.PopProve(sk)}[api]()
                        row["ret"] = list(got)
                        row["exp"] = list(interp(byapi[(api, sname)], {"G1": ob.G1, "sk": sk, "msg": m}))
                        if api != "SkToPk":
                            sigpool.append(bytes(got))
                    except Exception as e:  # noqa: BLE001
                        row["ret"] = f"EXC:{type(e).__name__}:{e}"[:120]
                        row["exp"] = []
                    out.append(row)
    for n in ([1, 2, 3, 6] if quick else [1, 2, 3, 4, 6, 9, 17, 32]):
        for sname, S in suites.items():
            ss = [rng.choice(sigpool) for _ in range(n)]
            if n >= 2:
                ss[-1] = ss[0]
            row = {"api": "Aggregate", "suite": sname, "mode": "plan", "sk": [], "msg": [], "sigs": [list(x) for x in ss],
                   "calls": [], "g1": 0, "z2": 0}
            try:
                row["ret"] = list(S.Aggregate(ss))
                row["exp"] = list(interp(byapi[("Aggregate", sname)], {"sigs": ss}))
            except Exception as e:  # noqa: BLE001
                row["ret"] = f"EXC:{type(e).__name__}:{e}"[:120]
                row["exp"] = []
            out.append(row)
    return out


def wire_tables(ctx: Ctx):
    import json as _json
    # (B) the plans come from the specification
    d = ctx.tmp / "plans"
    d.mkdir(exist_ok=True)
    (d / "empty.ndjson").write_text("")
    res = ctx.tlc("BlsWire", "SPECIFICATION Spec\nINVARIANT DumpPlans\n", env={"TABLE": str(d / "empty.ndjson")},
                  workers=1, name="BlsWire_plans")
    plans = []
    for ln in res.out.splitlines():
        if ln.startswith('"{') and ln.rstrip().endswith('"'):
            plans.append(_json.loads(_json.loads(ln)))
    if len(plans) < 10:
        from .core import MachineryError
        raise MachineryError(f"BlsWire.tla printed {len(plans)} plans")
    prs = plan_rows(ctx, plans)
    rs = rows(ctx)
    ctx.note("interception", "component calls recorded" if rs is not None else
             "not possible (component names are not module globals of ciphersuites any more); plans only")
    rs = (rs or []) + prs
    ctx.log(f"bls wire: {len(rs)} API calls checked ({len(prs)} against plans printed by TLC; SkToPk / Sign / PopProve / "
            f"Aggregate, three suites)")
    for r in rs[:: max(1, len(rs) // 4)][:4]:
        ctx.sample({"api": r["api"], "suite": r["suite"], "calls": [c["fn"] for c in r["calls"]],
                    "ret": bytes(r["ret"]).hex()[:32] if isinstance(r["ret"], list) else r["ret"]})
    ctx.add_cov("component_calls_recorded", sum(len(r["calls"]) for r in rs))
    tables.validate(ctx, "BlsWire", rs, invariants=["RowsOK"], result_keys=("ret",),
                    tag=lambda r: f"wire:{r['api']}:{r['suite']}",
                    describe=lambda r: f"{r['api']} {r['suite']} calls={[(c['fn'], c['p'], c['q'], c['out']) for c in r['calls']]} "
                                       f"ret={bytes(r['ret']).hex()[:40] if isinstance(r['ret'], list) else r['ret']}")
