"""Curve layer (C07, C13, C17, C18): tables from py_ecc's real curve functions on toy curves."""
from __future__ import annotations

import importlib
import itertools
import random
from multiprocessing import Pool

from . import toy
from .core import Guarded, limited, NCPU, CallTimeout
from .fields import bits

BN_MC = (82, 0, 0, 0, 0, 0, -18, 0, 0, 0, 0, 0)
BLS_MC = (2, 0, 0, 0, 0, 0, -2, 0, 0, 0, 0, 0)

# field descriptors used by the curve tables (name -> p, d, raw mc)
FIELDS = {
    "F7": (7, 1, (0,)), "F7^2": (7, 2, (1, 0)), "F7^12": (7, 12, tuple(c % 7 for c in BN_MC)),
    "F19": (19, 1, (0,)), "F19^2": (19, 2, (1, 0)), "F19^12": (19, 12, BLS_MC),
    "F13": (13, 1, (0,)), "F31": (31, 1, (0,)), "F43": (43, 1, (0,)), "F67": (67, 1, (0,)),
    "F79": (79, 1, (0,)), "F11^2": (11, 2, (1, 0)),
}
FIDX = {n: i + 1 for i, n in enumerate(FIELDS)}

# toy curves: name -> dict(field, b (coeff list), order, [twist info])
CURVES = {
    # bn128 shape: D-type twist, xi = 9 + i, b2 = b / xi
    "bnE7b2": dict(f="F7", b=[2], order=9),
    "bnE7b5": dict(f="F7", b=[5], order=7),
    "bnT7b2": dict(f="F7^2", b=[5, 1], order=61, f12="F7^12", s=9 % 7, ttype="D", c12="bnX7b2", shape="bn"),
    "bnX7b2": dict(f="F7^12", b=[2] + [0] * 11, order=0),
    # BLS12-381 shape: M-type twist, xi = 1 + i, b2 = b * xi
    "blsE19b4": dict(f="F19", b=[4], order=21),
    "blsE19b10": dict(f="F19", b=[10], order=19),
    "blsT19b4": dict(f="F19^2", b=[4, 4], order=373, f12="F19^12", s=1, ttype="M", c12="blsX19b4", shape="bls"),
    "blsX19b4": dict(f="F19^12", b=[4] + [0] * 11, order=0),
    # more base-field curves (prime and composite odd orders)
    "E13b2": dict(f="F13", b=[2], order=19), "E13b4": dict(f="F13", b=[4], order=21),
    "E31b7": dict(f="F31", b=[7], order=21), "E31b11": dict(f="F31", b=[11], order=25),
    "E43b9": dict(f="F43", b=[9], order=57),
    # secp256k1 shape y^2 = x^3 + 7, prime order N != p
    "secp43": dict(f="F43", b=[7], order=31), "secp67": dict(f="F67", b=[7], order=79),
    "secp79": dict(f="F79", b=[7], order=67),
}
CIDX = {n: i + 1 for i, n in enumerate(CURVES)}


def spec_fields():
    return [{"p": p, "d": d, "mc": [c % p for c in mc]} for (p, d, mc) in FIELDS.values()]


def spec_curves():
    out = []
    for name, c in CURVES.items():
        d = FIELDS[c["f"]][1]
        out.append({"f": FIDX[c["f"]], "a": [0] * d, "b": c["b"], "order": c["order"],
                    "f12": FIDX.get(c.get("f12"), 0), "s": c.get("s", 0), "ttype": c.get("ttype", "")})
    return out


# ----------------------------------------------------------------------------- plain-int enumeration
# (input generation only: TLC re-enumerates the points itself to check the coverage claims)
def _fmul(a, b, p, d):
    if d == 1:
        return [a[0] * b[0] % p]
    return [(a[0] * b[0] - a[1] * b[1]) % p, (a[0] * b[1] + a[1] * b[0]) % p]


def curve_points(cname):
    c = CURVES[cname]
    p, d, _ = FIELDS[c["f"]]
    assert d <= 2
    els = toy.elems(p, d)
    sq = {}
    for y in els:
        sq.setdefault(tuple(_fmul(y, y, p, d)), []).append(y)
    pts = []
    for x in els:
        x3 = _fmul(_fmul(x, x, p, d), x, p, d)
        rhs = tuple((x3[k] + c["b"][k]) % p for k in range(d))
        for y in sq.get(rhs, []):
            pts.append((x, y))
    return pts


# ----------------------------------------------------------------------------- module access
MODS = {
    "bn128": ("py_ecc.bn128.bn128_curve", "py_ecc.bn128.bn128_pairing", "ref", "bn"),
    "bls12_381": ("py_ecc.bls12_381.bls12_381_curve", "py_ecc.bls12_381.bls12_381_pairing", "ref", "bls"),
    "optimized_bn128": ("py_ecc.optimized_bn128.optimized_curve",
                        "py_ecc.optimized_bn128.optimized_pairing", "opt", "bn"),
    "optimized_bls12_381": ("py_ecc.optimized_bls12_381.optimized_curve",
                            "py_ecc.optimized_bls12_381.optimized_pairing", "opt", "bls"),
}
_twist_mods = {}


def twist_module(mname, f2name, f12name):
    """Private copy of the curve module whose FQ2 / FQ12 / w are the toy classes."""
    key = (mname, f12name)
    if key not in _twist_mods:
        curve_mod, _, fam, _ = MODS[mname]
        rel = curve_mod.replace(".", "/") + ".py"
        pkg = curve_mod.rsplit(".", 1)[0]
        p2, d2, mc2 = FIELDS[f2name]
        p12, d12, mc12 = FIELDS[f12name]
        T2 = toy.field_classes(p2, d2, mc2, fam)
        T12 = toy.field_classes(p12, d12, mc12, fam)
        m = toy.private_module(rel, pkg)
        m.FQ2, m.FQ12 = T2, T12
        m.w = T12([0, 1] + [0] * 10)
        _twist_mods[key] = m
    return _twist_mods[key]


def _safe(fn):
    try:
        return limited(fn, 60)
    except CallTimeout:
        raise       # non-termination: abort the job, reported by main
    except RecursionError:
        return "EXC:RecursionError"
    except Exception as e:  # noqa: BLE001
        return f"EXC:{type(e).__name__}:{e}"[:120]


class Codec:
    """Build py_ecc point objects for a module family from coefficient lists, and project back."""

    def __init__(self, fam, fname):
        self.fam = fam
        self.p, self.d, self.mc = FIELDS[fname]
        self.cls = toy.field_classes(self.p, self.d, self.mc, fam)

    def el(self, c):
        return toy.mk(self.cls, self.d, c)

    def pe(self, x):
        return toy.proj(x, self.d)

    def point(self, R):
        if R == "inf" or R == []:
            return None
        return tuple(self.el(c) for c in R)

    def proj(self, R):
        if isinstance(R, str):
            return R
        if R is None:
            return []
        try:
            return [self.pe(c) for c in R]
        except Exception as e:  # noqa: BLE001
            return f"EXC:proj:{type(e).__name__}"


def scale(R, lam, p, d):
    """(x, y) -> projective (lam x, lam y, lam)."""
    x, y = R
    return [_fmul(x, lam, p, d), _fmul(y, lam, p, d), list(lam)]


def _job(job):
    mname, cname, op, items = job
    curve_mod, pair_mod, fam, shape = MODS[mname]
    c = CURVES[cname]
    cm = importlib.import_module(curve_mod)
    rep = "aff" if fam == "ref" else "proj"
    cd = Codec(fam, c["f"])
    bq = cd.el(c["b"])
    rows = []
    base = {"m": mname, "c": CIDX[cname], "rep": rep, "op": op}
    for it in items:
        r = dict(base)
        if op in ("add", "eq"):
            P, Q = it
            r["P"], r["Q"] = P, Q
            a, b = cd.point(P), cd.point(Q)
            if P == Q and (len(rows) % 2):      # every other time the SAME object on both sides
                b = a
            if op == "add":
                r["r"] = cd.proj(_safe(lambda: cm.add(a, b)))
            else:
                v = _safe(lambda: cm.eq(a, b))
                r["r"] = (1 if v else 0) if isinstance(v, bool) else str(v)
        elif op in ("double", "neg"):
            r["P"] = it
            a = cd.point(it)
            r["r"] = cd.proj(_safe(lambda: getattr(cm, op)(a)))
        elif op == "mul":
            P, n = it
            r["P"], r["n"], r["sg"] = P, bits(n), 1
            a = cd.point(P)
            r["r"] = cd.proj(_safe(lambda: cm.multiply(a, n)))
        elif op == "onc":
            r["P"] = it
            a = cd.point(it)
            v = _safe(lambda: cm.is_on_curve(a, bq))
            r["r"] = (1 if v else 0) if isinstance(v, bool) else str(v)
        elif op == "isinf":
            r["P"] = it
            a = cd.point(it)
            v = _safe(lambda: cm.is_inf(a))
            r["r"] = (1 if v else 0) if isinstance(v, bool) else str(v)
        elif op == "norm":
            r["P"] = it
            a = cd.point(it)
            r["r"] = cd.proj(_safe(lambda: cm.normalize(a)))
        elif op in ("line", "pline"):
            pm = importlib.import_module(pair_mod)
            P, Q, T = it
            r["P"], r["Q"], r["T"] = P, Q, T
            a, b, t = cd.point(P), cd.point(Q), cd.point(T)
            v = _safe(lambda: pm.linefunc(a, b, t))
            if op == "line":
                r["r"] = cd.pe(v) if not isinstance(v, str) else v
            else:
                r["r"] = [cd.pe(v[0]), cd.pe(v[1])] if not isinstance(v, str) else v
        elif op == "twadd":
            tm = twist_module(mname, c["f"], c["f12"])
            cd12 = Codec(fam, c["f12"])
            P, Q, n = it
            r["P"], r["Q"], r["n"] = P, Q if Q is not None else [], bits(n) if n else []
            r["c12"] = CIDX[c["c12"]]
            a = cd.point(P)
            if n:
                r["r"] = cd12.proj(_safe(lambda: cm.multiply(tm.twist(a), n)))
            else:
                b = cd.point(Q)
                r["r"] = cd12.proj(_safe(lambda: cm.add(tm.twist(a), tm.twist(b))))
        elif op == "twist":
            tm = twist_module(mname, c["f"], c["f12"])
            cd12 = Codec(fam, c["f12"])
            r["P"] = it
            r["c12"] = CIDX[c["c12"]]
            a = cd.point(it)
            r["r"] = cd12.proj(_safe(lambda: tm.twist(a)))
        else:
            raise ValueError(op)
        rows.append(r)
    return rows


def _reps(fam, R, p, d, lams):
    if fam == "ref":
        return [R]
    if R == "inf":
        return None  # handled by caller (several representatives of infinity)
    return [scale(R, lam, p, d) for lam in lams]


def inf_reps(fam, p, d, rng):
    if fam == "ref":
        return [[]]
    z = [0] * d
    one = [1] + [0] * (d - 1)
    rnd = lambda: [rng.randrange(p) for _ in range(d)]  # noqa: E731
    return [[one, one, z], [z, one, z], [z, z, z], [rnd(), rnd(), z]]


def build_tables(tier, seed, log=lambda *a: None, mods=None, only_ops=None):
    rng = random.Random(seed + 7)
    quick = tier == "quick"
    jobs = []   # (job, claim arity or 0)

    def add(mname, cname, op, items, arity=0):
        if only_ops and op not in only_ops:
            return
        if items:
            jobs.append(((mname, cname, op, items), arity))

    for mname, (curve_mod, pair_mod, fam, shape) in MODS.items():
        if mods and mname not in mods:
            continue
        for cname, c in CURVES.items():
            p, d, _ = FIELDS[c["f"]]
            if d > 2 or cname.startswith("secp"):
                continue
            # twist curves only in the module of their shape; base curves in every module
            if c.get("shape") and c["shape"] != shape:
                continue
            if c["f"] in ("F7",) and shape != "bn" and quick:
                pass
            pts = curve_points(cname)
            assert len(pts) + 1 == c["order"], (cname, len(pts) + 1)
            units = [e for e in toy.elems(p, d) if any(e)]
            small = len(pts) <= 30
            one = [1] + [0] * (d - 1)
            # scalings used for projective representatives
            if fam == "opt":
                lam_all = units if (p ** d <= 13) else None
                def lams(k):
                    base = [one, [p - 1] + [0] * (d - 1)]
                    return base + [rng.choice(units) for _ in range(k)]
            infs = inf_reps(fam, p, d, rng)

            def reps(R, k=1):
                if R == "inf":
                    return infs
                if fam == "ref":
                    return [[list(R[0]), list(R[1])]]
                ls = lam_all if lam_all is not None else lams(k)
                return [scale(R, lam, p, d) for lam in ls]

            allpts = ["inf"] + pts
            # unary ops on every representative of every point
            un = [rp for R in allpts for rp in reps(R, 2)]
            for op in ("double", "neg", "isinf", "onc"):
                add(mname, cname, op, un, 1)
            if fam == "opt":
                add(mname, cname, "norm", [rp for R in pts for rp in reps(R, 2)])
            # binary ops: all pairs of points; representatives: all (tiny curves) or sampled,
            # always including equal scalings of both operands and z = 1
            pairs = []
            if small or not quick:
                pp = [(P, Q) for P in allpts for Q in allpts]
                ex = 2
            else:
                sub = ["inf"] + rng.sample(pts, 40)
                pp = [(P, Q) for P in sub for Q in sub]
                pp += [(P, P) for P in pts] + [(P, (P[0], [(-v) % p for v in P[1]])) for P in pts]
                ex = 0
            for P, Q in pp:
                if fam == "ref":
                    pairs.append((reps(P)[0], reps(Q)[0]))
                    continue
                rp, rq = reps(P, 1), reps(Q, 1)
                if lam_all is not None and len(pts) <= 10:
                    pairs += [(a, b) for a in rp for b in rq]
                else:
                    pairs.append((rp[0], rq[0]))
                    pairs.append((rng.choice(rp), rng.choice(rq)))
                    if P != "inf" and Q != "inf":
                        lam = rng.choice(units)     # a common denominator z1 = z2 != 1
                        pairs.append((scale(P, lam, p, d), scale(Q, lam, p, d)))
                    else:
                        pairs.append((rng.choice(rp), rng.choice(rq)))
            add(mname, cname, "add", pairs, ex)
            add(mname, cname, "eq", pairs, ex)
            # off-curve / arbitrary coordinate tuples for is_on_curve
            els = toy.elems(p, d)
            if p ** d <= 31:
                arb = [(x, y) for x in els for y in els]
            else:
                arb = [(rng.choice(els), rng.choice(els)) for _ in range(300)]
            add(mname, cname, "onc", [reps(R, 1)[-1] if fam == "opt" else [list(R[0]), list(R[1])]
                                      for R in arb])
            # scalar multiplication: every n in 0..2*order+3 on a few points, every point on a few n,
            # plus scalars beyond 32/64/640 bits
            order = c["order"]
            some = pts if small else rng.sample(pts, 6)
            ns = list(range(0, 2 * order + 4)) if small or not quick else \
                list(range(0, 12)) + [order - 1, order, order + 1, 2 * order, 2 * order + 3]
            big = [rng.getrandbits(40), rng.getrandbits(70), rng.getrandbits(255), rng.getrandbits(640) | 1 << 639]
            muls = [(rp, n) for R in some[:4] for rp in reps(R, 0)[:2] for n in ns]
            muls += [(reps(R, 0)[-1], n) for R in allpts for n in (0, 1, 2, 3, 5, order - 1, order, order + 1)]
            muls += [(reps(R, 0)[0], n) for R in some[:3] for n in big]
            muls += [(rp, n) for rp in infs for n in (0, 1, 2, 4, 7, order)]
            add(mname, cname, "mul", muls)
            # line functions (C13): all triples on tiny curves, sampled otherwise; finite points only
            lop = "line" if fam == "ref" else "pline"
            trip = []
            if len(pts) <= 10:
                tp = [(P, Q, T) for P in pts for Q in pts for T in pts]
            else:
                sub = rng.sample(pts, min(len(pts), 9))
                tp = [(P, Q, T) for P in sub for Q in sub for T in sub]
                tp += [(P, P, T) for P in sub for T in rng.sample(pts, 4)]
                tp += [(P, (P[0], [(-v) % p for v in P[1]]), T) for P in sub for T in rng.sample(pts, 4)]
            for P, Q, T in tp:
                trip.append((reps(P, 1)[-1], reps(Q, 1)[-1], reps(T, 1)[-1]))
                if fam == "opt":
                    trip.append((reps(P, 1)[0], reps(Q, 1)[0], reps(T, 1)[0]))
            add(mname, cname, lop, trip)
            # twist into the degree-12 curve
            if c.get("f12"):
                tw = allpts if not quick or len(pts) <= 70 else ["inf"] + rng.sample(pts, 40)
                add(mname, cname, "twist", [reps(R, 1)[-1] for R in tw], 1 if tw is allpts else 0)
                fin = [R for R in pts]
                prs = [(rng.choice(fin), rng.choice(fin)) for _ in range(10 if quick else 120)]
                prs += [(fin[0], fin[0]), (fin[1], (fin[1][0], [(-v) % p for v in fin[1][1]]))]      # P + P, P + (-P)
                items = [(reps(P, 1)[-1], reps(Q, 1)[-1], 0) for (P, Q) in prs]
                items += [(reps(rng.choice(fin), 1)[-1], None, n) for n in (2, 3, 5, rng.randrange(6, 200))]
                add(mname, cname, "twadd", items)
    work = []
    for ji, (job, arity) in enumerate(jobs):
        mname, cname, op, items = job
        step = 60 if op == "twist" else (8 if op == "twadd" else 2000)
        for k in range(0, len(items), step):
            work.append((ji, (mname, cname, op, items[k:k + step])))
    log(f"curve tables: {len(jobs)} jobs, {sum(len(j[0][3]) for j in jobs)} rows to produce")
    with Pool(NCPU) as pool:
        parts = pool.map(Guarded(_wrap), work, chunksize=1)
    by = {}
    for (ji, _), rows in zip(work, parts):
        by.setdefault(ji, []).extend(rows)
    rows, claims = [], []
    for ji, (job, arity) in enumerate(jobs):
        lo = len(rows) + 1
        rows.extend(by.get(ji, []))
        if arity:
            claims.append({"m": job[0], "c": CIDX[job[1]], "op": job[2], "arity": arity,
                           "lo": lo, "hi": len(rows)})
    return rows, claims


def _wrap(w):
    return _job(w[1])


# ----------------------------------------------------------------------------- secp256k1 (private copy)
_secp = {}


def secp_module(cname):
    if cname not in _secp:
        c = CURVES[cname]
        p = FIELDS[c["f"]][0]
        pts = curve_points(cname)
        g = pts[len(pts) // 3]
        m = toy.private_module("py_ecc/secp256k1/secp256k1.py", "py_ecc.secp256k1")
        m.P, m.N, m.A, m.B = p, c["order"], 0, c["b"][0]
        m.Gx, m.Gy = g[0][0], g[1][0]
        m.G = (m.Gx, m.Gy)
        _secp[cname] = m
    return _secp[cname]


def secp_rows(tier, seed, only=None):
    """add / multiply / jacobian_* / from_jacobian of the private secp256k1 copy on toy curves."""
    rng = random.Random(seed + 11)
    quick = tier == "quick"
    rows = []
    claims = []
    for cname in ("secp43", "secp67", "secp79"):
        if only and cname not in only:
            continue
        if quick and cname == "secp79":
            continue
        m = secp_module(cname)
        c = CURVES[cname]
        p, N = m.P, m.N
        pts = [(P[0][0], P[1][0]) for P in curve_points(cname)]
        allp = [(0, 0)] + pts
        ci = CIDX[cname]

        def plain(R):
            return [[R[0]], [R[1]]] if not isinstance(R, str) else R

        def jac(R):
            return [[R[0]], [R[1]], [R[2]]] if not isinstance(R, str) else R

        lo = len(rows) + 1
        for P in allp:
            for Q in allp:
                rows.append({"m": "secp256k1", "c": ci, "rep": "plain", "op": "add", "P": plain(P),
                             "Q": plain(Q), "r": plain(_safe(lambda: m.add(P, Q)))})
        claims.append({"m": "secp256k1", "c": ci, "op": "add", "arity": 2, "lo": lo, "hi": len(rows)})
        ns = list(range(-2 * N - 2, 3 * N + 3))
        some = pts if not quick else rng.sample(pts, 8)
        big = [rng.getrandbits(300), -rng.getrandbits(300), rng.getrandbits(512) | 1 << 511, N * N, -N * N,
               2 ** 256 - 1, 2 ** 256 + 1]
        for P in some + [(0, 0)]:
            for n in ns + big:
                rows.append({"m": "secp256k1", "c": ci, "rep": "plain", "op": "mul", "P": plain(P),
                             "n": bits(abs(n)), "sg": -1 if n < 0 else 1,
                             "r": plain(_safe(lambda: m.multiply(P, n)))})
        for P in pts:
            for n in (0, 1, 2, 3, N - 1, N, N + 1, 2 * N, -1, -N):
                rows.append({"m": "secp256k1", "c": ci, "rep": "plain", "op": "mul", "P": plain(P),
                             "n": bits(abs(n)), "sg": -1 if n < 0 else 1,
                             "r": plain(_safe(lambda: m.multiply(P, n)))})
        # Jacobian layer on every representative (C13): (x z^2, y z^3, z); identity markers
        zs = list(range(1, p)) if not quick else [1, p - 1] + rng.sample(range(2, p - 1), 3)
        # identity encodings the library itself produces (y = 0 marker); triples such as (5, 0, 3)
        # are not points of an odd-order curve and are outside the property
        jinf = [(0, 0, 1), (0, 0, 0)]

        def jreps(R, k):
            if R == (0, 0):
                return jinf
            return [(R[0] * z * z % p, R[1] * z * z * z % p, z) for z in (zs if k else zs[:2])]

        for P in allp:
            for a in jreps(P, 1):
                rows.append({"m": "secp256k1", "c": ci, "rep": "jac", "op": "jdouble", "P": jac(a),
                             "r": jac(_safe(lambda: m.jacobian_double(a)))})
                rows.append({"m": "secp256k1", "c": ci, "rep": "jac", "op": "fromjac", "P": jac(a),
                             "r": plain(_safe(lambda: m.from_jacobian(a)))})
        # representatives whose integers are NOT reduced into 0..p-1 (negative scaling, coordinates shifted by p)
        def unreduced(R):
            x, y = R
            return [(x, -y, -1), (4 * x, -8 * y, -2), (x * 9 % p + p, y * 27 % p - p, 3 + p), (x - 2 * p, y + p, 1)]
        for P in (pts if not quick else rng.sample(pts, 6)):
            Q = rng.choice(pts)
            for a in unreduced(P):
                rows.append({"m": "secp256k1", "c": ci, "rep": "jac", "op": "jdouble", "P": jac(a),
                             "r": jac(_safe(lambda: m.jacobian_double(a)))})
                rows.append({"m": "secp256k1", "c": ci, "rep": "jac", "op": "fromjac", "P": jac(a),
                             "r": plain(_safe(lambda: m.from_jacobian(a)))})
                for b in unreduced(P)[:2] + unreduced(Q)[:2] + [(P[0], (-P[1]) % p, 1), (P[0], P[1], 1)]:
                    rows.append({"m": "secp256k1", "c": ci, "rep": "jac", "op": "jadd", "P": jac(a),
                                 "Q": jac(b), "r": jac(_safe(lambda: m.jacobian_add(a, b)))})
        sub = allp if not quick else [(0, 0)] + rng.sample(pts, 14)
        for P in sub:
            for Q in sub + [P, (P[0], (-P[1]) % p)]:
                for a in jreps(P, 0) + [rng.choice(jreps(P, 1))]:
                    for b in jreps(Q, 0) + [rng.choice(jreps(Q, 1))]:
                        rows.append({"m": "secp256k1", "c": ci, "rep": "jac", "op": "jadd", "P": jac(a),
                                     "Q": jac(b), "r": jac(_safe(lambda: m.jacobian_add(a, b)))})
        for P in some[:4] + [(0, 0)]:
            for a in jreps(P, 0)[:2]:
                for n in list(range(-3, 8)) + [N - 1, N, N + 1, 2 * N + 1, -N, rng.getrandbits(200)]:
                    rows.append({"m": "secp256k1", "c": ci, "rep": "jac", "op": "jmul", "P": jac(a),
                                 "n": bits(abs(n)), "sg": -1 if n < 0 else 1,
                                 "r": jac(_safe(lambda: m.jacobian_multiply(a, n)))})
    return rows, claims
