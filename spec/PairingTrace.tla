---------------------------- MODULE PairingTrace ----------------------------
(***************************************************************************)
(* Full-size conformance of the four pairing implementations with the      *)
(* abstract data type "non-degenerate bilinear map between cyclic groups   *)
(* of prime order r" (C05, C12).  Everything lives in the EXPONENT:        *)
(*   G1, G2 elements: discrete logarithm w.r.t. the generators, in Z_r;    *)
(*   GT elements:     logarithm w.r.t. e(G2, G1);  e(bQ, aP) = g^(a b).    *)
(* A value before the final exponentiation ("pre") is tracked by the       *)
(* logarithm of its final exponentiation; products of such values add the  *)
(* logarithms, and FE of the product is the product of the pairings.       *)
(* The recorder interns the twelve canonical coefficients of each FQ12     *)
(* value as an id, SHARED between the reference and the optimized module   *)
(* of a curve, so "optimized = reference" (C12) is an id equality and      *)
(* "bilinear" (C05) is: equal logarithm <=> equal id, over all GT          *)
(* registers of the trace.  Injectivity of log |-> g^log needs g of order  *)
(* exactly r: the trace must contain g # 1 and g^r = 1 (checked at the     *)
(* end: HasOrderFacts).                                                    *)
(***************************************************************************)
EXTENDS StdConstants, FiniteSets, Json, IOUtils

Trace  == ndJsonDeserialize(IOEnv.TRACE)
Params == ndJsonDeserialize(IOEnv.PARAMS)[1]     \* [curve |-> "bls" | "bn"]
R == IF Params.curve = "bls" THEN BlsR ELSE BnR
P == IF Params.curve = "bls" THEN BlsP ELSE BnP

VARIABLES l, abs, cid, ok
vars == <<l, abs, cid, ok>>

Val(k, e) == [k |-> k, e |-> e]      \* k in {"g1", "g2", "gt", "pre"}
ScalarMod(e) == IF e.sg < 0 THEN NegMod(Mod(e.n, R), R) ELSE Mod(e.n, R)

Produces(e) == e.op \in {"g1", "g2", "add", "neg", "pair", "prepair", "one", "gtmul", "gtpow", "gtinv",
                         "premul", "fe"}

NewVal(e) ==
  CASE e.op = "g1"      -> Val("g1", ScalarMod(e))                       \* multiply(G1, n)
    [] e.op = "g2"      -> Val("g2", ScalarMod(e))                       \* multiply(G2, n)
    [] e.op = "add"     -> Val(abs[e.a].k, AddMod(abs[e.a].e, abs[e.b].e, R))
    [] e.op = "neg"     -> Val(abs[e.a].k, NegMod(abs[e.a].e, R))
    [] e.op = "pair"    -> Val("gt", MulMod(abs[e.a].e, abs[e.b].e, R))  \* pairing(Q = reg a, P = reg b)
    [] e.op = "prepair" -> Val("pre", MulMod(abs[e.a].e, abs[e.b].e, R)) \* ... final_exponentiate = False
    [] e.op = "one"     -> Val("gt", Zero)
    [] e.op = "gtmul"   -> Val("gt", AddMod(abs[e.a].e, abs[e.b].e, R))
    [] e.op = "gtpow"   -> Val("gt", MulMod(abs[e.a].e, ScalarMod(e), R))
    [] e.op = "gtinv"   -> Val("gt", NegMod(abs[e.a].e, R))
    [] e.op = "premul"  -> Val("pre", AddMod(abs[e.a].e, abs[e.b].e, R))
    [] e.op = "fe"      -> Val("gt", abs[e.a].e)                         \* final_exponentiate(pre value)

KindsOK(e) ==
  CASE e.op \in {"pair", "prepair"} -> abs[e.a].k = "g2" /\ abs[e.b].k = "g1"
    [] e.op = "add"    -> abs[e.a].k = abs[e.b].k /\ abs[e.a].k \in {"g1", "g2"}
    [] e.op = "neg"    -> abs[e.a].k \in {"g1", "g2"}
    [] e.op \in {"gtmul"} -> abs[e.a].k = "gt" /\ abs[e.b].k = "gt"
    [] e.op \in {"gtpow", "gtinv"} -> abs[e.a].k = "gt"
    [] e.op = "premul" -> abs[e.a].k = "pre" /\ abs[e.b].k = "pre"
    [] e.op = "fe"     -> abs[e.a].k = "pre"
    [] OTHER -> TRUE

\* equal logarithm <=> equal id among GT registers (ids of G1 / G2 points are 0: decided by C07)
Consistent(v, id) ==
  v.k = "gt" => \A j \in 1..Len(abs) : abs[j].k = "gt" => ((abs[j].e = v.e) <=> (cid[j] = id))

\* observations: no new register
ObsOK(e) ==
  CASE e.op = "refuse" -> e.res = 1                 \* pairing of a point that is not on its curve raised
    \* final_exponentiate(x) = x ** E for an arbitrary FQ12 element, with E r = p^12 - 1
    [] e.op = "fe_any" -> /\ Mul(e.n, R) = Sub(PowN(P, 12), One)
                          /\ e.id = e.id2
    \* exp_by_p(x) = x ** p
    [] e.op = "frob"   -> e.n = P /\ e.id = e.id2
    [] OTHER -> FALSE

Init == l = 1 /\ abs = <<>> /\ cid = <<>> /\ ok = TRUE
Next ==
  /\ l <= Len(Trace) /\ ok
  /\ l' = l + 1
  /\ LET e == Trace[l] IN
     IF e.exc # "" THEN ok' = FALSE /\ UNCHANGED <<abs, cid>>
     ELSE IF Produces(e)
     THEN LET v == NewVal(e) IN
          /\ abs' = Append(abs, v) /\ cid' = Append(cid, e.id)
          /\ ok' = (e.d = Len(abs) + 1 /\ KindsOK(e) /\ Consistent(v, e.id))
     ELSE /\ UNCHANGED <<abs, cid>>
          /\ ok' = ObsOK(e)
Spec == Init /\ [][Next]_vars

Accepted == ok
\* the facts that make  log |-> id  injective: some GT register has logarithm 1 and an id different from
\* the unit's, and some register g^r (logarithm 0 through gtpow by r) exists
HasOrderFacts ==
  /\ \E j \in 1..Len(abs) : abs[j].k = "gt" /\ abs[j].e = One
  /\ \E j \in 1..Len(Trace) : Trace[j].op = "gtpow" /\ Trace[j].sg > 0 /\ Trace[j].n = R
Done == l = Len(Trace) + 1 =>
  /\ HasOrderFacts
  /\ PrintT(<<"consumed", Len(Trace), "gt_registers", Cardinality({j \in 1..Len(abs) : abs[j].k = "gt"}),
              "distinct_gt", Cardinality({cid[j] : j \in {k \in 1..Len(abs) : abs[k].k = "gt"}})>>)
=============================================================================
