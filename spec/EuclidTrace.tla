---------------------------- MODULE EuclidTrace ----------------------------
(***************************************************************************)
(* Validation of loop states recorded from the real prime_field_inv /      *)
(* secp256k1.inv (one line per evaluation of the loop condition, taken     *)
(* with sys.settrace: locals lm, hm, low, high) against Euclid.tla.        *)
(*  row: [fn, a, n, states |-> <<[lm, hm, low, high]>>, res]               *)
(* Small moduli only (TLC integers); the same functions at 256/381 bits    *)
(* are exercised by every full-size trace.                                 *)
(***************************************************************************)
EXTENDS Euclid, Sequences, Json, IOUtils

Rows   == ndJsonDeserialize(IOEnv.TABLE)
Stride == 64
VARIABLE i

RowOK(r) ==
  LET s == r.states k == Len(s) IN
  IF r.a % r.n = 0 THEN k = 0 /\ r.res = 0
  ELSE /\ k >= 1
       /\ s[1] = [lm |-> 1, hm |-> 0, low |-> r.a % r.n, high |-> r.n]              \* Start
       /\ \A j \in 1..(k - 1) :                                                       \* Step, while low > 1
            s[j].low > 1 /\ StepRel(s[j].lm, s[j].hm, s[j].low, s[j].high,
                                    s[j + 1].lm, s[j + 1].hm, s[j + 1].low, s[j + 1].high)
       /\ s[k].low <= 1                                                               \* Exit
       /\ r.res = s[k].lm % r.n
       /\ \A j \in 1..k : (s[j].lm * r.a - s[j].low) % r.n = 0                        \* the loop invariant

TInit == i = 0 /\ pc = "start" /\ A = 0 /\ N = 2 /\ lm = 0 /\ hm = 0 /\ low = 0 /\ high = 0 /\ res = 0
TNext == /\ UNCHANGED vars
         /\ \/ i = 0 /\ i' \in 1..(IF Stride < Len(Rows) THEN Stride ELSE Len(Rows))
            \/ i > 0 /\ i + Stride <= Len(Rows) /\ i' = i + Stride
TSpec == TInit /\ [][TNext]_<<i, vars>>
RowsOK == i > 0 => (Rows[i].exc = "" /\ RowOK(Rows[i]))
=============================================================================
