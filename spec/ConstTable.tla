----------------------------- MODULE ConstTable -----------------------------
(***************************************************************************)
(* The library's published constants against StdConstants.tla (C07, C17,   *)
(* C18): the harness exports each module-level constant of the real        *)
(* modules as BigNat limbs, one row per constant                           *)
(*    [name |-> "...", v |-> limbs]   or   [name, v |-> <<re, im>>] / list *)
(* and TLC compares it with the value DERIVED from the curve parameters,   *)
(* and checks the pinned generators against the curve equations.           *)
(***************************************************************************)
EXTENDS StdConstants, Json, IOUtils

Rows == ndJsonDeserialize(IOEnv.TABLE)
VARIABLE i

Expected(name) ==
  CASE name = "bls.field_modulus"  -> BlsP
    [] name = "bls.curve_order"    -> BlsR
    [] name = "bls.b"              -> N(4)
    [] name = "bls.b2"             -> <<N(4), N(4)>>
    [] name = "bls.G1.x"           -> BlsG1x
    [] name = "bls.G2.x"           -> <<BlsG2xRe, BlsG2xIm>>
    [] name = "bls.H_EFF_G1"       -> BlsHEff1
    [] name = "bls.H_EFF_G2"       -> BlsHEff2
    [] name = "bls.G2_COFACTOR"    -> BlsH2
    [] name = "bls.ate_loop_count" -> BlsAteLoop
    [] name = "bls.FQ2_mod"        -> <<One, Zero>>                       \* i^2 + 1
    [] name = "bls.FQ12_mod"       -> <<N(2), Zero, Zero, Zero, Zero, Zero, Sub(BlsP, N(2)), Zero, Zero, Zero, Zero, Zero>>
    [] name = "bn.field_modulus"   -> BnP
    [] name = "bn.curve_order"     -> BnR
    [] name = "bn.b"               -> N(3)
    [] name = "bn.G1"              -> <<One, N(2)>>
    [] name = "bn.G2.x"            -> <<BnG2xRe, BnG2xIm>>
    [] name = "bn.G2.y"            -> <<BnG2yRe, BnG2yIm>>
    [] name = "bn.ate_loop_count"  -> BnAteLoop
    [] name = "bn.FQ2_mod"         -> <<One, Zero>>
    [] name = "bn.FQ12_mod"        -> <<N(82), Zero, Zero, Zero, Zero, Zero, Sub(BnP, N(18)), Zero, Zero, Zero, Zero, Zero>>
    [] name = "secp.P"             -> SecpP
    [] name = "secp.N"             -> SecpN
    [] name = "secp.A"             -> Zero
    [] name = "secp.B"             -> N(7)
    [] name = "secp.G"             -> <<SecpGx, SecpGy>>
    [] OTHER -> <<0 - 1>>

\* relations that tie a constant to the curve rather than to a literal
Related(r) ==
  CASE r.name = "bls.G1.y"  -> OnCurve1(BlsP, N(4), BlsG1x, r.v) /\ IsSmallerY(BlsP, r.v)
    [] r.name = "bls.G2.y"  -> /\ OnCurve2(BlsP, <<N(4), N(4)>>, <<BlsG2xRe, BlsG2xIm>>, r.v)
                               \* sign bit 0: imaginary part is the smaller one (it is non-zero)
                               /\ r.v[2] # Zero /\ IsSmallerY(BlsP, r.v[2])
    [] r.name = "bn.b2"     -> F2Mul(BnP, r.v, <<N(9), One>>) = <<N(3), Zero>>   \* b2 = 3 / (9 + i)
    [] r.name = "bn.G2.oncurve" ->
         OnCurve2(BnP, r.v, <<BnG2xRe, BnG2xIm>>, <<BnG2yRe, BnG2yIm>>)           \* v = exported b2
    [] OTHER -> FALSE

IsRelated(name) == name \in {"bls.G1.y", "bls.G2.y", "bn.b2", "bn.G2.oncurve"}
RowOK(r) == IF IsRelated(r.name) THEN Related(r) ELSE r.v = Expected(r.name)

Needed == {"bls.field_modulus", "bls.curve_order", "bls.b", "bls.b2", "bls.G1.x", "bls.G1.y", "bls.G2.x",
           "bls.G2.y", "bls.H_EFF_G1", "bls.H_EFF_G2", "bls.G2_COFACTOR", "bls.ate_loop_count",
           "bls.FQ2_mod", "bls.FQ12_mod", "bn.field_modulus", "bn.curve_order", "bn.b", "bn.b2", "bn.G1",
           "bn.G2.x", "bn.G2.y", "bn.G2.oncurve", "bn.ate_loop_count", "bn.FQ2_mod", "bn.FQ12_mod",
           "secp.P", "secp.N", "secp.A", "secp.B", "secp.G"}

Init == i = 0
Next == i < Len(Rows) /\ i' = i + 1
Spec == Init /\ [][Next]_i
SelfOK   == i = 0 => SelfChecks
CoverOK  == i = 0 => Needed \subseteq {Rows[k].name : k \in 1..Len(Rows)}
RowsOK   == i > 0 => (Rows[i].exc = "" /\ RowOK(Rows[i]))
=============================================================================
