------------------------------ MODULE CoordBig ------------------------------
(***************************************************************************)
(* Full-size add / double / neg of the four curve modules and secp256k1    *)
(* checked IN COORDINATES against the affine chord-and-tangent law, over   *)
(* BigNat (C07, C13, C18).  GroupTrace.tla decides equalities between      *)
(* registers through abstract logarithms; this module decides the value of *)
(* a single result: the row carries the affine operands and the affine     *)
(* result (abstraction of the code's raw output by the harness's integer   *)
(* arithmetic) and, where the law divides, the slope as a WITNESS that TLC *)
(* verifies by multiplication:                                             *)
(*   chord    P # +-Q :  w (xQ - xP) = yQ - yP                             *)
(*   tangent  P = Q, yP # 0 :  w (2 yP) = 3 xP^2     (a = 0 on all curves) *)
(*   then  xR = w^2 - xP - xQ,  yR = w (xP - xR) - yP                      *)
(*   P = -Q (or a doubling with yP = 0) -> O;  O is neutral;  -P = (x, -y) *)
(* Elements of Fp are <<a>>, of Fp2 <<re, im>>; a point is <<x, y>> or <<>>*)
(* (the identity).  The prime is the specification's own (StdConstants).   *)
(*   row: [cv |-> "bls"|"bn"|"secp", g |-> 1|2, op, P, Q, r, w, m]         *)
(***************************************************************************)
EXTENDS StdConstants, Json, IOUtils

Rows   == ndJsonDeserialize(IOEnv.TABLE)
Stride == 8
VARIABLE i

Pr(cv) == CASE cv = "bls" -> BlsP [] cv = "bn" -> BnP [] cv = "secp" -> SecpP
EZero(d) == IF d = 1 THEN <<Zero>> ELSE <<Zero, Zero>>
EAdd(q, a, b) == [k \in 1..Len(a) |-> AddMod(a[k], b[k], q)]
ESub(q, a, b) == [k \in 1..Len(a) |-> SubMod(a[k], b[k], q)]
ENeg(q, a)    == [k \in 1..Len(a) |-> NegMod(a[k], q)]
EMul(q, a, b) == IF Len(a) = 1 THEN <<FMul(q, a[1], b[1])>> ELSE F2Mul(q, a, b)
IsE(q, d, a)  == Len(a) = d /\ \A k \in 1..d : IsNat(a[k]) /\ Less(a[k], q)
IsPt(q, d, T) == T = <<>> \/ (Len(T) = 2 /\ IsE(q, d, T[1]) /\ IsE(q, d, T[2]))
INF == <<>>

\* the affine law with the slope supplied as a witness
AddW(q, d, A, B, w) ==
  IF A = INF THEN B
  ELSE IF B = INF THEN A
  ELSE IF A[1] = B[1] /\ A[2] # B[2] THEN INF                       \* inverse points (y differs => y = -y' on the curve)
  ELSE IF A[1] = B[1] /\ A[2] = EZero(d) THEN INF                   \* a 2-torsion point doubled
  ELSE LET xr == ESub(q, ESub(q, EMul(q, w, w), A[1]), B[1])
           yr == ESub(q, EMul(q, w, ESub(q, A[1], xr)), A[2])
       IN <<xr, yr>>
\* the witness is the slope the law prescribes
SlopeOK(q, d, A, B, w) ==
  IF A = INF \/ B = INF THEN TRUE
  ELSE IF A[1] # B[1] THEN EMul(q, w, ESub(q, B[1], A[1])) = ESub(q, B[2], A[2])
  ELSE IF A[2] = B[2] /\ A[2] # EZero(d)
       THEN EMul(q, w, EAdd(q, A[2], A[2])) = LET x2 == EMul(q, A[1], A[1]) IN EAdd(q, EAdd(q, x2, x2), x2)
       ELSE TRUE

RowOK(r) ==
  LET q == Pr(r.cv) d == r.g IN
  /\ IsPt(q, d, r.P) /\ IsPt(q, d, r.Q) /\ (r.op # "line" => IsPt(q, d, r.r))
  /\ CASE r.op = "add"    -> IsE(q, d, r.w) /\ SlopeOK(q, d, r.P, r.Q, r.w) /\ r.r = AddW(q, d, r.P, r.Q, r.w)
       [] r.op = "double" -> IsE(q, d, r.w) /\ SlopeOK(q, d, r.P, r.P, r.w) /\ r.r = AddW(q, d, r.P, r.P, r.w)
       [] r.op = "neg"    -> r.r = IF r.P = INF THEN INF ELSE <<r.P[1], ENeg(q, r.P[2])>>
       \* the line through P and Q (tangent if P = Q, vertical if Q = -P) evaluated at T, all three finite:
       \* v = w (xT - xP) - (yT - yP), or xT - xP for the vertical line; r.r = <<v>>
       [] r.op = "line"   -> /\ IsPt(q, d, r.T) /\ r.P # INF /\ r.Q # INF /\ r.T # INF /\ IsE(q, d, r.w)
                             /\ SlopeOK(q, d, r.P, r.Q, r.w)
                             /\ Len(r.r) = 1 /\ IsE(q, d, r.r[1])
                             /\ r.r[1] = IF r.P[1] = r.Q[1] /\ (r.P[2] # r.Q[2] \/ r.P[2] = EZero(d))
                                         THEN ESub(q, r.T[1], r.P[1])
                                         ELSE ESub(q, EMul(q, r.w, ESub(q, r.T[1], r.P[1])), ESub(q, r.T[2], r.P[2]))
       [] OTHER -> FALSE

Init == i = 0
Next == \/ i = 0 /\ i' \in 1..(IF Stride < Len(Rows) THEN Stride ELSE Len(Rows))
        \/ i > 0 /\ i + Stride <= Len(Rows) /\ i' = i + Stride
Spec == Init /\ [][Next]_i
RowsOK == i > 0 => (Rows[i].exc = "" /\ RowOK(Rows[i]))
=============================================================================
