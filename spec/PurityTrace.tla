---------------------------- MODULE PurityTrace ----------------------------
(***************************************************************************)
(* Validation of a recorded history against Purity.tla (C20).  One event   *)
(* per call:  [c |-> descriptor, res, before, after, consts |-> digests].  *)
(* Vals[c] is the digest of the result of call c made alone in a fresh     *)
(* interpreter; CONSTS0 the digest of all listed constants right after     *)
(* import in a fresh interpreter.                                          *)
(***************************************************************************)
EXTENDS Integers, Sequences, TLC, Json, IOUtils

Trace == ndJsonDeserialize(IOEnv.TRACE)
Vals  == ndJsonDeserialize(IOEnv.VALS)        \* Vals[c] = [c, res, consts]
VARIABLES l, ok
Init == l = 1 /\ ok = TRUE
Next == /\ l <= Len(Trace) /\ ok
        /\ l' = l + 1
        /\ LET e == Trace[l] IN
           ok' = /\ e.exc = ""
                 /\ e.c \in 1..Len(Vals) /\ Vals[e.c].c = e.c
                 /\ e.res = Vals[e.c].res                 \* Functional (history independent, fresh-interpreter equal)
                 /\ e.before = e.after                    \* ArgsFrozen
                 /\ e.consts = Vals[1].consts             \* ConstsFrozen
Spec == Init /\ [][Next]_<<l, ok>>
Accepted == ok
\* the reference table itself: every fresh interpreter saw the same constants
ValsOK == \A c \in 1..Len(Vals) : Vals[c].consts = Vals[1].consts /\ Vals[c].exc = ""
ValsOKInv == l = 1 => ValsOK
Done == l = Len(Trace) + 1 => PrintT(<<"consumed", Len(Trace)>>)
=============================================================================
