------------------------------ MODULE H2cTable ------------------------------
(***************************************************************************)
(* hash_to_G1 / hash_to_G2 and hash_to_field_FQ / FQ2 of the REAL module   *)
(* at full size (C10, C15): dataflow conformance with RFC 9380 section 3   *)
(*    u = hash_to_field(msg, 2); Q0 = map_to_curve(u[0]);                  *)
(*    Q1 = map_to_curve(u[1]); R = Q0 + Q1; P = clear_cofactor(R)          *)
(* The recorder wraps the component functions of a private copy of         *)
(* py_ecc.bls.hash_to_curve and interns every value it sees (field         *)
(* elements and points) as an id; TLC checks that exactly the prescribed   *)
(* component calls were made on the prescribed operands, and recomputes    *)
(* hash_to_field itself: expand_message_xmd over the recorded digest graph *)
(* (Xmd.tla) and OS2IP(64 bytes) mod p with BigNat.                        *)
(* (map_to_curve is decided by SwuBig.tla, add / clear_cofactor /          *)
(* subgroup_check by GroupTrace.tla.)                                      *)
(*   h2c [g, msg, dst, H, calls |-> <<[fn, in |-> <<ids>>, out |-> <<ids>>]>>, *)
(*        u |-> <<elements as BigNat tuples>>, uid |-> <<ids>>, ret, sub]  *)
(*   h2f [g, msg, dst, H, count, u]                                        *)
(***************************************************************************)
EXTENDS Xmd, StdConstants, Json, IOUtils

Rows   == ndJsonDeserialize(IOEnv.TABLE)
Stride == 4
VARIABLE i

\* section 5.2 with L = 64, modulus BlsP: element k, coordinate j
H2F(H, msg, dst, count, m) ==
  LET uni == Expand(H, msg, dst, count * m * 64) IN
  IF uni = NoHash THEN NoHash
  ELSE [k \in 1..count |-> [j \in 1..m |->
          Mod(FromBytes(Slice(uni, 64 * ((j - 1) + (k - 1) * m) + 1, 64 * ((j - 1) + (k - 1) * m) + 64)), BlsP)]]

MapFn(g) == IF g = 1 THEN "map_to_curve_G1" ELSE "map_to_curve_G2"
ClrFn(g) == IF g = 1 THEN "clear_cofactor_G1" ELSE "clear_cofactor_G2"

PipelineOK(r) ==
  LET c == r.calls IN
  /\ Len(c) = 5
  /\ c[1].fn = "hash_to_field" /\ c[1].out = r.uid /\ Len(r.uid) = 2
  /\ c[2].fn = MapFn(r.g) /\ c[2].in = <<r.uid[1]>>
  /\ c[3].fn = MapFn(r.g) /\ c[3].in = <<r.uid[2]>>
  /\ c[4].fn = "add" /\ c[4].in = <<c[2].out[1], c[3].out[1]>>
  /\ c[5].fn = ClrFn(r.g) /\ c[5].in = <<c[4].out[1]>>
  /\ r.ret = c[5].out[1]
  /\ r.sub = 1                                     \* the result passes subgroup_check

RowOK(r) ==
  /\ Functional(r.H.g)
  \* the expansion must be defined (every prescribed digest present in the recorded graph) BEFORE the elements are
  \* compared: NoHash is not comparable with a tuple of field elements
  /\ CASE r.op = "h2c" -> /\ PipelineOK(r)
                          /\ Expand(r.H, r.msg, r.dst, 2 * r.g * 64) # NoHash
                          /\ r.u = H2F(r.H, r.msg, r.dst, 2, r.g)
       [] r.op = "h2f" -> /\ Expand(r.H, r.msg, r.dst, r.count * r.g * 64) # NoHash
                          /\ r.u = H2F(r.H, r.msg, r.dst, r.count, r.g)
       [] OTHER -> FALSE

Init == i = 0
Next == \/ i = 0 /\ i' \in 1..(IF Stride < Len(Rows) THEN Stride ELSE Len(Rows))
        \/ i > 0 /\ i + Stride <= Len(Rows) /\ i' = i + Stride
Spec == Init /\ [][Next]_i
RowsOK == i > 0 => (Rows[i].exc = "" /\ RowOK(Rows[i]))
=============================================================================
