------------------------------ MODULE CodecBig ------------------------------
(***************************************************************************)
(* Full-size conformance of the ZCash serialization of BLS12-381 points    *)
(* (C11) with ZcashCodec.tla's relational definition, evaluated over       *)
(* BigNat with the derived field prime.  Elements: <<x>> (Fp), <<re, im>>  *)
(* (Fp2).  Squareness of g(x) = x^3 + b is settled by a WITNESS verified   *)
(* by multiplication: s with s^2 = g(x), or s with s^2 = xi g(x) # 0 for   *)
(* the non-square xi (-1 in Fp, 1 + i in Fp2; p = 3 mod 8).                *)
(*  enc [g, P |-> affine point or <<>> for infinity, s |-> bytes]          *)
(*      bytes produced by G1_to_pubkey / G2_to_signature                   *)
(*  dec [g, s |-> bytes, r |-> affine point | <<>> infinity | <<0>> for    *)
(*       ValueError, w |-> witness, sq |-> 0/1]                            *)
(***************************************************************************)
EXTENDS StdConstants, Json, IOUtils

Rows   == ndJsonDeserialize(IOEnv.TABLE)
Stride == 8
VARIABLE i

P == BlsP
EZero(d) == IF d = 1 THEN <<Zero>> ELSE <<Zero, Zero>>
EAdd(a, b) == [k \in 1..Len(a) |-> AddMod(a[k], b[k], P)]
EMul(a, b) == IF Len(a) = 1 THEN <<FMul(P, a[1], b[1])>> ELSE F2Mul(P, a, b)
ESqr(a) == EMul(a, a)
IsE(d, a) == Len(a) = d /\ \A k \in 1..d : IsNat(a[k]) /\ Less(a[k], P)
Bcoef(d) == IF d = 1 THEN <<N(4)>> ELSE <<N(4), N(4)>>
Xi(d) == IF d = 1 THEN <<Sub(P, One)>> ELSE <<One, One>>
Gx(d, x) == EAdd(EMul(ESqr(x), x), Bcoef(d))
OnE(d, pt) == ESqr(pt[2]) = Gx(d, pt[1])

\* sign of y: 1 iff y is the lexicographically larger of {y, -y}
Big(y) == ~Less(Double(y), P)          \* 2 y >= p
SignOf(d, y) == IF d = 1 THEN (IF Big(y[1]) THEN 1 ELSE 0)
                ELSE IF y[2] # Zero THEN (IF Big(y[2]) THEN 1 ELSE 0) ELSE (IF Big(y[1]) THEN 1 ELSE 0)

\* a 48-byte word: flags and the 381-bit value
Flag(s, k) == (s[1] \div (IF k = 1 THEN 128 ELSE IF k = 2 THEN 64 ELSE 32)) % 2
Value(s) == FromBytes(<<s[1] % 32>> \o SubSeq(s, 2, 48))
WordBytes(c, b, a, x) == LET t == ToBytes(x, 48) IN <<t[1] + 128 * c + 64 * b + 32 * a>> \o SubSeq(t, 2, 48)

EncOK(r) ==
  LET d == r.g IN
  IF r.P = <<>> THEN r.s = (IF d = 1 THEN WordBytes(1, 1, 0, Zero) ELSE WordBytes(1, 1, 0, Zero) \o WordBytes(0, 0, 0, Zero))
  ELSE /\ IsE(d, r.P[1]) /\ IsE(d, r.P[2])
       /\ IF d = 1 THEN r.s = WordBytes(1, 0, SignOf(1, r.P[2]), r.P[1][1])
          ELSE r.s = WordBytes(1, 0, SignOf(2, r.P[2]), r.P[1][2]) \o WordBytes(0, 0, 0, r.P[1][1])

\* class of an encoding and, for "pt", the x it carries
DecOK(r) ==
  LET d  == r.g
      w1 == SubSeq(r.s, 1, 48)
      c == Flag(w1, 1) b == Flag(w1, 2) a == Flag(w1, 3)
      v1 == Value(w1)
      v2 == IF d = 2 THEN FromBytes(SubSeq(r.s, 49, 96)) ELSE Zero      \* second word: flags included in the value
      infpat == v1 = Zero /\ (d = 1 \/ v2 = Zero)
      x  == IF d = 1 THEN <<v1>> ELSE <<v2, v1>>
      ERR == <<0>>
  IN /\ Len(r.s) = 48 * d
     /\ IF c = 0 THEN r.r = ERR
        ELSE IF b = 1 THEN (IF infpat /\ a = 0 THEN r.r = <<>> ELSE r.r = ERR)
        ELSE IF ~Less(v1, P) \/ (d = 2 /\ ~Less(v2, P)) THEN r.r = ERR
        ELSE \* the witness decides whether x is the abscissa of a curve point
             /\ IsE(d, r.w)
             /\ IF r.sq = 1
                THEN /\ ESqr(r.w) = Gx(d, x)
                     /\ r.r # ERR /\ r.r # <<>>
                     /\ IsE(d, r.r[1]) /\ IsE(d, r.r[2])
                     /\ r.r[1] = x /\ OnE(d, r.r) /\ SignOf(d, r.r[2]) = a
                ELSE /\ ESqr(r.w) = EMul(Xi(d), Gx(d, x)) /\ Gx(d, x) # EZero(d)
                     /\ r.r = ERR

RowOK(r) == CASE r.op = "enc" -> EncOK(r) [] r.op = "dec" -> DecOK(r) [] OTHER -> FALSE

Init == i = 0
Next == \/ i = 0 /\ i' \in 1..(IF Stride < Len(Rows) THEN Stride ELSE Len(Rows))
        \/ i > 0 /\ i + Stride <= Len(Rows) /\ i' = i + Stride
Spec == Init /\ [][Next]_i
PremisesOK == i = 0 => Mod(P, N(8)) = N(3)
RowsOK == i > 0 => (Rows[i].exc = "" /\ RowOK(Rows[i]))
=============================================================================
