------------------------------ MODULE XmdTable ------------------------------
(***************************************************************************)
(* Code -> spec conformance for expand_message_xmd and hash_to_field_FQ /  *)
(* hash_to_field_FQ2 (C15).  Rows:                                         *)
(*   xmd [H, msg, dst, len, raised |-> 0/1, r |-> output bytes]            *)
(*   h2f [H, msg, dst, count, m, p, raised, r |-> <<<<coords>>, ...>>]     *)
(* H is [kind |-> "toy", b, s] (the real function called with a toy hash   *)
(* object) or [kind |-> "graph", b, s, g] (called with a recording wrapper *)
(* around a real hashlib function; g lists every digest it produced).      *)
(***************************************************************************)
EXTENDS Xmd, Json, IOUtils

Rows   == ndJsonDeserialize(IOEnv.TABLE)
Stride == 16
VARIABLE i

RowOK(r) ==
  /\ (r.H.kind = "graph" => Functional(r.H.g))
  /\ CASE r.op = "xmd" ->
            IF Aborts(r.H, r.dst, r.len) THEN r.raised = 1
            ELSE r.raised = 0 /\ Len(r.r) = r.len /\ r.r = Expand(r.H, r.msg, r.dst, r.len)
       [] r.op = "h2f" ->
            IF Aborts(r.H, r.dst, r.count * r.m * 64) THEN r.raised = 1
            ELSE /\ r.raised = 0
                 /\ Expand(r.H, r.msg, r.dst, r.count * r.m * 64) # NoHash     \* defined before it is compared
                 /\ r.r = HashToField(r.H, r.msg, r.dst, r.count, r.m, r.p)
       [] OTHER -> FALSE

Init == i = 0
Next == \/ i = 0 /\ i' \in 1..(IF Stride < Len(Rows) THEN Stride ELSE Len(Rows))
        \/ i > 0 /\ i + Stride <= Len(Rows) /\ i' = i + Stride
Spec == Init /\ [][Next]_i
RowsOK == i > 0 => (Rows[i].exc = "" /\ RowOK(Rows[i]))
=============================================================================
