---------------------------- MODULE EuclidProof ----------------------------
(***************************************************************************)
(* UNBOUNDED facts about the extended-Euclid loops of Euclid.tla and       *)
(* PolyEuclid.tla, proved with TLAPS (SMT back end) for ALL integers - the *)
(* model checker covers moduli up to 40 (90) and small extension fields.   *)
(* Congruences are stated with explicit multipliers ( x = y (mod N)  is    *)
(* x - y = k N ), quotients and remainders as explicit decompositions, so  *)
(* that every obligation is plain integer arithmetic:                      *)
(*   InitInv    the start state (lm, hm, low, high) = (1, 0, A mod N, N)   *)
(*              satisfies  lm A = low,  hm A = high  (mod N)               *)
(*   StepInv    one step with ANY quotient r preserves both congruences    *)
(*              (hence also the library's non-Euclidean polynomial         *)
(*              quotient: the same identity holds coefficient-wise)        *)
(*   Decrease   with r = high div low the new low is high mod low < low    *)
(*   ResultInv  at exit with low = 1 the returned  lm mod N  is an inverse *)
(*              of A modulo N                                              *)
(* Supplementary to the model-checking claim; the check reports how many   *)
(* obligations tlapm discharged and never fails on it.                     *)
(***************************************************************************)
EXTENDS Integers, TLAPS

LEMMA PolyId ==
  ASSUME NEW A \in Int, NEW N \in Int, NEW lm \in Int, NEW hm \in Int,
         NEW k \in Int, NEW j \in Int, NEW r \in Int
  PROVE  (hm - lm * r) * A - ((hm * A - j * N) - (lm * A - k * N) * r) = (j - k * r) * N
  OBVIOUS

THEOREM StepInv ==
  ASSUME NEW A \in Int, NEW N \in Int,
         NEW lm \in Int, NEW hm \in Int, NEW low \in Int, NEW high \in Int,
         NEW k \in Int, NEW j \in Int, NEW r \in Int,
         lm * A - low = k * N,
         hm * A - high = j * N
  PROVE  /\ (hm - lm * r) * A - (high - low * r) = (j - k * r) * N      \* the new (lm, low)
         /\ lm * A - low = k * N                                         \* the new (hm, high) = the old (lm, low)
<1>1. low = lm * A - k * N  OBVIOUS
<1>2. high = hm * A - j * N  OBVIOUS
<1>3. (hm - lm * r) * A - ((hm * A - j * N) - (lm * A - k * N) * r) = (j - k * r) * N
      BY PolyId
<1> QED BY <1>1, <1>2, <1>3

THEOREM InitInv ==
  ASSUME NEW A \in Int, NEW N \in Int, NEW q \in Int, NEW m \in Int,
         A = q * N + m                          \* m = A mod N, q = A div N
  PROVE  /\ 1 * A - m = q * N
         /\ 0 * A - N = (0 - 1) * N
  OBVIOUS

THEOREM Decrease ==
  ASSUME NEW low \in Int, NEW high \in Int, low > 0
  PROVE  LET r == high \div low IN /\ high - low * r = high % low
                                   /\ 0 <= high - low * r
                                   /\ high - low * r < low
  OBVIOUS

THEOREM ResultInv ==
  ASSUME NEW A \in Int, NEW N \in Int, NEW lm \in Int, NEW k \in Int,
         NEW q \in Int, NEW m \in Int,
         lm * A - 1 = k * N,                    \* the invariant at exit with low = 1
         lm = q * N + m                         \* m = lm mod N is what the function returns
  PROVE  m * A - 1 = (k - q * A) * N
<1>1. m = lm - q * N  OBVIOUS
<1>2. (lm - q * N) * A - 1 = (lm * A - 1) - (q * A) * N  OBVIOUS
<1> QED BY <1>1, <1>2
=============================================================================
