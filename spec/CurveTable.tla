----------------------------- MODULE CurveTable -----------------------------
(***************************************************************************)
(* Code -> spec conformance for the curve modules (C07, C13, C17, C18).    *)
(*                                                                         *)
(* The harness calls the REAL functions of bn128, bls12_381,               *)
(* optimized_bn128, optimized_bls12_381 (generic in the field objects, so  *)
(* they run unchanged on toy fields) and of a private copy of secp256k1    *)
(* with toy constants, and records raw coordinates.  One row per call:     *)
(*   [m |-> module, c |-> curve index, rep |-> "aff"|"proj"|"plain"|"jac", *)
(*    op |-> ..., P, Q, T |-> raw operands, n |-> scalar bits, sg |-> sign,*)
(*    r |-> raw result]                                                    *)
(* TLC maps operands and result through the abstraction function of the    *)
(* representation and compares with the affine law of Curve.tla.           *)
(***************************************************************************)
EXTENDS Curve, Json, IOUtils

Rows    == ndJsonDeserialize(IOEnv.TABLE)
Fields  == ndJsonDeserialize(IOEnv.FIELDS)
CurvesJ == ndJsonDeserialize(IOEnv.CURVES)   \* [f, a, b, f12, s, ttype, order]
Claims  == ndJsonDeserialize(IOEnv.CLAIMS)
Stride  == 64

VARIABLE i

Crv(k) == [F |-> Fields[CurvesJ[k].f], a |-> CurvesJ[k].a, b |-> CurvesJ[k].b]

(***************************************************************************)
(* Binding of the transcription ProjFormulas.tla to the code (C13): over   *)
(* prime fields the RAW coordinates returned by the real functions equal   *)
(* the transcribed polynomial expressions, coordinate by coordinate, on    *)
(* the control path the code takes.  (MC_ProjIdentities.tla proves those   *)
(* expressions equal the affine law as identities over the integers.)      *)
(***************************************************************************)
PF(q) == INSTANCE ProjFormulas WITH P <- q
C1(R, k) == R[k][1]                                   \* coordinate k of a raw triple over a prime field
Raw3(x, y, z) == <<<<x>>, <<y>>, <<z>>>>
RawOK(r) ==
  LET q == Fields[CurvesJ[r.c].f].p IN
  IF Fields[CurvesJ[r.c].f].d # 1 THEN TRUE
  ELSE CASE r.op = "double" /\ r.rep = "proj" ->
              r.r = Raw3(PF(q)!DblX(C1(r.P, 1), C1(r.P, 2), C1(r.P, 3)), PF(q)!DblY(C1(r.P, 1), C1(r.P, 2), C1(r.P, 3)),
                         PF(q)!DblZ(C1(r.P, 1), C1(r.P, 2), C1(r.P, 3)))
         [] r.op = "add" /\ r.rep = "proj" ->
              LET x1 == C1(r.P, 1) y1 == C1(r.P, 2) z1 == C1(r.P, 3) x2 == C1(r.Q, 1) y2 == C1(r.Q, 2) z2 == C1(r.Q, 3) IN
              (z1 # 0 /\ z2 # 0 /\ PF(q)!AddV(x1, y1, z1, x2, y2, z2) # 0) =>         \* the generic branch
                 r.r = Raw3(PF(q)!AddX(x1, y1, z1, x2, y2, z2), PF(q)!AddY(x1, y1, z1, x2, y2, z2), PF(q)!AddZ(x1, y1, z1, x2, y2, z2))
         [] r.op = "pline" ->
              LET x1 == C1(r.P, 1) y1 == C1(r.P, 2) z1 == C1(r.P, 3) x2 == C1(r.Q, 1) y2 == C1(r.Q, 2) z2 == C1(r.Q, 3)
                  xt == C1(r.T, 1) yt == C1(r.T, 2) zt == C1(r.T, 3)
                  md == PF(q)!AddV(x1, y1, z1, x2, y2, z2)           \* x2 z1 - x1 z2
                  mn == PF(q)!AddU(x1, y1, z1, x2, y2, z2)           \* y2 z1 - y1 z2
              IN IF md # 0 THEN r.r = <<<<PF(q)!LineChordN(x1, y1, z1, x2, y2, z2, xt, yt, zt)>>,
                                        <<PF(q)!LineChordD(x1, y1, z1, x2, y2, z2, xt, yt, zt)>>>>
                 ELSE IF mn = 0 THEN r.r = <<<<PF(q)!LineTanN(x1, y1, z1, xt, yt, zt)>>, <<PF(q)!LineTanD(x1, y1, z1, xt, yt, zt)>>>>
                 ELSE r.r = <<<<PF(q)!LineVertN(x1, z1, xt, zt)>>, <<PF(q)!LineVertD(z1, zt)>>>>
         [] r.op = "jdouble" ->
              C1(r.P, 2) # 0 => r.r = Raw3(PF(q)!JDblX(C1(r.P, 1), C1(r.P, 2), C1(r.P, 3)), PF(q)!JDblY(C1(r.P, 1), C1(r.P, 2), C1(r.P, 3)),
                                          PF(q)!JDblZ(C1(r.P, 1), C1(r.P, 2), C1(r.P, 3)))
         [] r.op = "jadd" ->
              LET x1 == C1(r.P, 1) y1 == C1(r.P, 2) z1 == C1(r.P, 3) x2 == C1(r.Q, 1) y2 == C1(r.Q, 2) z2 == C1(r.Q, 3) IN
              (y1 # 0 /\ y2 # 0 /\ PF(q)!JAddH(x1, y1, z1, x2, y2, z2) # 0) =>
                 r.r = Raw3(PF(q)!JAddX(x1, y1, z1, x2, y2, z2), PF(q)!JAddY(x1, y1, z1, x2, y2, z2), PF(q)!JAddZ(x1, y1, z1, x2, y2, z2))
         [] OTHER -> TRUE
B2N(b) == IF b THEN 1 ELSE 0

\* well-formedness of a raw value in its representation: canonical coefficients
WF(F, rep, R) ==
  CASE rep = "aff"   -> R = INF \/ (Len(R) = 2 /\ IsElem(F, R[1]) /\ IsElem(F, R[2]))
    [] rep = "proj"  -> Len(R) = 3 /\ \A k \in 1..3 : IsElem(F, R[k])
    [] rep = "jac"   -> Len(R) = 3 /\ \A k \in 1..3 : IsElem(F, R[k])
    [] rep = "plain" -> Len(R) = 2 /\ IsElem(F, R[1]) /\ IsElem(F, R[2])

Abs(C, rep, R) ==
  CASE rep = "aff"   -> R
    [] rep = "proj"  -> ProjToAff(C, R)
    [] rep = "jac"   -> JacToAff(C, R)
    [] rep = "plain" -> PlainToAff(C, R)

Scalar(C, P, r) == LET q == MulBits(C, P, r.n) IN IF r.sg < 0 THEN PNeg(C, q) ELSE q

RowOK(r) ==
  LET C == Crv(r.c)
      F == C.F
      A(R) == Abs(C, r.rep, R)
  IN
  CASE r.op = "add"    -> WF(F, r.rep, r.r) /\ A(r.r) = PAdd(C, A(r.P), A(r.Q))
    [] r.op = "double" -> WF(F, r.rep, r.r) /\ A(r.r) = PDouble(C, A(r.P))
    [] r.op = "neg"    -> WF(F, r.rep, r.r) /\ A(r.r) = PNeg(C, A(r.P))
    [] r.op = "mul"    -> WF(F, r.rep, r.r) /\ A(r.r) = Scalar(C, A(r.P), r)
    [] r.op = "eq"     -> r.r = B2N(A(r.P) = A(r.Q))
    [] r.op = "onc"    -> r.r = B2N(OnCurve(C, A(r.P)))
    [] r.op = "isinf"  -> r.r = B2N(A(r.P) = INF)
    [] r.op = "norm"   -> Len(r.r) = 2 /\ IsElem(F, r.r[1]) /\ IsElem(F, r.r[2])
                          /\ <<r.r[1], r.r[2]>> = A(r.P)
    [] r.op = "line"   -> \* affine line function (reference pairing modules)
                          r.r = Line(C, A(r.P), A(r.Q), A(r.T))
    [] r.op = "pline"  -> \* projective numerator/denominator (optimized pairing modules)
                          /\ IsElem(F, r.r[1]) /\ IsElem(F, r.r[2])
                          /\ r.r[2] # Zero(F)
                          /\ Div(F, r.r[1], r.r[2]) = Line(C, A(r.P), A(r.Q), A(r.T))
    [] r.op = "twist"  -> \* E'(F_p^2) -> E(F_p^12); r.c is the twist curve, c12 its target
                          LET K   == CurvesJ[r.c]
                              F12 == Fields[K.f12]
                              C12 == Crv(r.c12)
                              img == Abs(C12, r.rep, r.r)
                              exp == IF K.ttype = "D" THEN TwistD(F12, K.s, A(r.P))
                                                      ELSE TwistM(F12, K.s, A(r.P))
                          IN WF(F12, r.rep, r.r) /\ img = exp /\ OnCurve(C12, img)
    [] r.op = "twadd"  -> \* homomorphism on the degree-12 curve: add(twist(P), twist(Q)) computed by the module's
                          \* own add over F_p^12 is twist(P + Q); also multiply(twist(P), n) = twist(n P)
                          LET K   == CurvesJ[r.c]
                              F12 == Fields[K.f12]
                              C12 == Crv(r.c12)
                              Tw(X) == IF K.ttype = "D" THEN TwistD(F12, K.s, X) ELSE TwistM(F12, K.s, X)
                              img == Abs(C12, r.rep, r.r)
                              sum == IF r.n = <<>> THEN PAdd(C, A(r.P), A(r.Q)) ELSE MulBits(C, A(r.P), r.n)
                          IN /\ WF(F12, r.rep, r.r)
                             /\ img = Tw(sum)
                             /\ (IF r.n = <<>> THEN img = PAdd(C12, Tw(A(r.P)), Tw(A(r.Q)))      \* ... and the spec's twist is additive
                                 ELSE TRUE)
    [] r.op = "jadd"   -> WF(F, "jac", r.r)
                          /\ JacToAff(C, r.r) = PAdd(C, JacToAff(C, r.P), JacToAff(C, r.Q))
    [] r.op = "jdouble"-> WF(F, "jac", r.r)
                          /\ JacToAff(C, r.r) = PDouble(C, JacToAff(C, r.P))
    [] r.op = "jmul"   -> WF(F, "jac", r.r)
                          /\ JacToAff(C, r.r) = Scalar(C, JacToAff(C, r.P), r)
    [] r.op = "fromjac"-> WF(F, "plain", r.r) /\ PlainToAff(C, r.r) = JacToAff(C, r.P)
    [] OTHER -> FALSE

AllPoints(C) == {INF} \cup {P \in Elem(C.F) \X Elem(C.F) : OnCurve(C, P)}

ClaimOK(c) ==
  LET C   == Crv(c.c)
      idx == c.lo..c.hi
      pts == AllPoints(C)
  IN /\ \A j \in idx : Rows[j].c = c.c /\ Rows[j].op = c.op /\ Rows[j].m = c.m
     /\ Cardinality(pts) = CurvesJ[c.c].order
     /\ IF c.arity = 1
        THEN {Abs(C, Rows[j].rep, Rows[j].P) : j \in idx} = pts
        ELSE {<<Abs(C, Rows[j].rep, Rows[j].P), Abs(C, Rows[j].rep, Rows[j].Q)>> : j \in idx}
             = pts \X pts

\* premises every toy curve must share with the real ones: b # 0, odd order (no point with
\* y = 0), characteristic > 3
CurveOK(k) ==
  LET C == Crv(k) IN
  /\ WellFormed(C.F) /\ C.F.p > 3
  /\ C.b # Zero(C.F)
  /\ (CurvesJ[k].order = 0 \/ CurvesJ[k].order % 2 = 1)
  /\ (C.F.d <= 2 => \A x \in Elem(C.F) : Rhs(C, x) # Zero(C.F))

Init == i = 0
Next == \/ i = 0 /\ i' \in 1..(IF Stride < Len(Rows) THEN Stride ELSE Len(Rows))
        \/ i > 0 /\ i + Stride <= Len(Rows) /\ i' = i + Stride
Spec == Init /\ [][Next]_i

CurvesOK == i = 0 => \A k \in 1..Len(CurvesJ) : CurveOK(k)
ClaimsOK == i = 0 => \A k \in 1..Len(Claims) : ClaimOK(Claims[k])
\* an exception where a value is specified is a rejected row (exc is "" when none was raised)
RowsOK   == i > 0 => (Rows[i].exc = "" /\ RowOK(Rows[i]) /\ RawOK(Rows[i]))
=============================================================================
