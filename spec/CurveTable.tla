----------------------------- MODULE CurveTable -----------------------------
(***************************************************************************)
(* Code -> spec conformance for the curve modules (C07, C13, C17, C18).    *)
(*                                                                         *)
(* The harness calls the REAL functions of bn128, bls12_381,               *)
(* optimized_bn128, optimized_bls12_381 (generic in the field objects, so  *)
(* they run unchanged on toy fields) and of a private copy of secp256k1    *)
(* with toy constants, and records raw coordinates.  One row per call:     *)
(*   [m |-> module, c |-> curve index, rep |-> "aff"|"proj"|"plain"|"jac", *)
(*    op |-> ..., P, Q, T |-> raw operands, n |-> scalar bits, sg |-> sign,*)
(*    r |-> raw result]                                                    *)
(* TLC maps operands and result through the abstraction function of the    *)
(* representation and compares with the affine law of Curve.tla.           *)
(***************************************************************************)
EXTENDS Curve, Json, IOUtils

Rows    == ndJsonDeserialize(IOEnv.TABLE)
Fields  == ndJsonDeserialize(IOEnv.FIELDS)
CurvesJ == ndJsonDeserialize(IOEnv.CURVES)   \* [f, a, b, f12, s, ttype, order]
Claims  == ndJsonDeserialize(IOEnv.CLAIMS)
Stride  == 64

VARIABLE i

Crv(k) == [F |-> Fields[CurvesJ[k].f], a |-> CurvesJ[k].a, b |-> CurvesJ[k].b]
B2N(b) == IF b THEN 1 ELSE 0

\* well-formedness of a raw value in its representation: canonical coefficients
WF(F, rep, R) ==
  CASE rep = "aff"   -> R = INF \/ (Len(R) = 2 /\ IsElem(F, R[1]) /\ IsElem(F, R[2]))
    [] rep = "proj"  -> Len(R) = 3 /\ \A k \in 1..3 : IsElem(F, R[k])
    [] rep = "jac"   -> Len(R) = 3 /\ \A k \in 1..3 : IsElem(F, R[k])
    [] rep = "plain" -> Len(R) = 2 /\ IsElem(F, R[1]) /\ IsElem(F, R[2])

Abs(C, rep, R) ==
  CASE rep = "aff"   -> R
    [] rep = "proj"  -> ProjToAff(C, R)
    [] rep = "jac"   -> JacToAff(C, R)
    [] rep = "plain" -> PlainToAff(C, R)

Scalar(C, P, r) == LET q == MulBits(C, P, r.n) IN IF r.sg < 0 THEN PNeg(C, q) ELSE q

RowOK(r) ==
  LET C == Crv(r.c)
      F == C.F
      A(R) == Abs(C, r.rep, R)
  IN
  CASE r.op = "add"    -> WF(F, r.rep, r.r) /\ A(r.r) = PAdd(C, A(r.P), A(r.Q))
    [] r.op = "double" -> WF(F, r.rep, r.r) /\ A(r.r) = PDouble(C, A(r.P))
    [] r.op = "neg"    -> WF(F, r.rep, r.r) /\ A(r.r) = PNeg(C, A(r.P))
    [] r.op = "mul"    -> WF(F, r.rep, r.r) /\ A(r.r) = Scalar(C, A(r.P), r)
    [] r.op = "eq"     -> r.r = B2N(A(r.P) = A(r.Q))
    [] r.op = "onc"    -> r.r = B2N(OnCurve(C, A(r.P)))
    [] r.op = "isinf"  -> r.r = B2N(A(r.P) = INF)
    [] r.op = "norm"   -> Len(r.r) = 2 /\ IsElem(F, r.r[1]) /\ IsElem(F, r.r[2])
                          /\ <<r.r[1], r.r[2]>> = A(r.P)
    [] r.op = "line"   -> \* affine line function (reference pairing modules)
                          r.r = Line(C, A(r.P), A(r.Q), A(r.T))
    [] r.op = "pline"  -> \* projective numerator/denominator (optimized pairing modules)
                          /\ IsElem(F, r.r[1]) /\ IsElem(F, r.r[2])
                          /\ r.r[2] # Zero(F)
                          /\ Div(F, r.r[1], r.r[2]) = Line(C, A(r.P), A(r.Q), A(r.T))
    [] r.op = "twist"  -> \* E'(F_p^2) -> E(F_p^12); r.c is the twist curve, c12 its target
                          LET K   == CurvesJ[r.c]
                              F12 == Fields[K.f12]
                              C12 == Crv(r.c12)
                              img == Abs(C12, r.rep, r.r)
                              exp == IF K.ttype = "D" THEN TwistD(F12, K.s, A(r.P))
                                                      ELSE TwistM(F12, K.s, A(r.P))
                          IN WF(F12, r.rep, r.r) /\ img = exp /\ OnCurve(C12, img)
    [] r.op = "jadd"   -> WF(F, "jac", r.r)
                          /\ JacToAff(C, r.r) = PAdd(C, JacToAff(C, r.P), JacToAff(C, r.Q))
    [] r.op = "jdouble"-> WF(F, "jac", r.r)
                          /\ JacToAff(C, r.r) = PDouble(C, JacToAff(C, r.P))
    [] r.op = "jmul"   -> WF(F, "jac", r.r)
                          /\ JacToAff(C, r.r) = Scalar(C, JacToAff(C, r.P), r)
    [] r.op = "fromjac"-> WF(F, "plain", r.r) /\ PlainToAff(C, r.r) = JacToAff(C, r.P)
    [] OTHER -> FALSE

AllPoints(C) == {INF} \cup {P \in Elem(C.F) \X Elem(C.F) : OnCurve(C, P)}

ClaimOK(c) ==
  LET C   == Crv(c.c)
      idx == c.lo..c.hi
      pts == AllPoints(C)
  IN /\ \A j \in idx : Rows[j].c = c.c /\ Rows[j].op = c.op /\ Rows[j].m = c.m
     /\ Cardinality(pts) = CurvesJ[c.c].order
     /\ IF c.arity = 1
        THEN {Abs(C, Rows[j].rep, Rows[j].P) : j \in idx} = pts
        ELSE {<<Abs(C, Rows[j].rep, Rows[j].P), Abs(C, Rows[j].rep, Rows[j].Q)>> : j \in idx}
             = pts \X pts

\* premises every toy curve must share with the real ones: b # 0, odd order (no point with
\* y = 0), characteristic > 3
CurveOK(k) ==
  LET C == Crv(k) IN
  /\ WellFormed(C.F) /\ C.F.p > 3
  /\ C.b # Zero(C.F)
  /\ (CurvesJ[k].order = 0 \/ CurvesJ[k].order % 2 = 1)
  /\ (C.F.d <= 2 => \A x \in Elem(C.F) : Rhs(C, x) # Zero(C.F))

Init == i = 0
Next == \/ i = 0 /\ i' \in 1..(IF Stride < Len(Rows) THEN Stride ELSE Len(Rows))
        \/ i > 0 /\ i + Stride <= Len(Rows) /\ i' = i + Stride
Spec == Init /\ [][Next]_i

CurvesOK == i = 0 => \A k \in 1..Len(CurvesJ) : CurveOK(k)
ClaimsOK == i = 0 => \A k \in 1..Len(Claims) : ClaimOK(Claims[k])
\* an exception where a value is specified is a rejected row (exc is "" when none was raised)
RowsOK   == i > 0 => (Rows[i].exc = "" /\ RowOK(Rows[i]))
=============================================================================
