----------------------------- MODULE FieldTable -----------------------------
(***************************************************************************)
(* Code -> spec conformance for the field classes (C08, C14).              *)
(*                                                                         *)
(* The harness runs py_ecc's REAL field classes (reference and optimized   *)
(* families, instantiated with the descriptors in FIELDS) and records one  *)
(* row per operation:                                                      *)
(*   [f |-> field index, fam |-> "ref"|"opt", op |-> name,                 *)
(*    a, b |-> operand coefficient tuples, k |-> int operand,              *)
(*    n |-> exponent bits (LSB first), r |-> raw stored result]            *)
(* Every row is one state of this spec; RowOK recomputes the result with   *)
(* the operators of Field.  CLAIMS lists (field, family, op) triples whose *)
(* rows are asserted to cover the whole domain; TLC counts them.           *)
(***************************************************************************)
EXTENDS Field, Json, IOUtils

Rows   == ndJsonDeserialize(IOEnv.TABLE)
Fields == ndJsonDeserialize(IOEnv.FIELDS)
Claims == ndJsonDeserialize(IOEnv.CLAIMS)
Stride == 64

VARIABLE i

B2N(b) == IF b THEN 1 ELSE 0

RowOK(r) ==
  LET F == Fields[r.f] IN
  CASE r.op = "add"   -> r.r = Add(F, r.a, r.b)
    [] r.op = "sub"   -> r.r = Sub(F, r.a, r.b)
    [] r.op = "mul"   -> r.r = Mul(F, r.a, r.b)
    [] r.op = "div"   -> IsElem(F, r.r) /\ IsQuot(F, r.a, r.b, r.r)
    [] r.op = "neg"   -> r.r = Neg(F, r.a)
    [] r.op = "inv"   -> IsElem(F, r.r) /\ IsInv(F, r.a, r.r)
    [] r.op = "pow"   -> r.r = PowBits(F, r.a, r.n)
    [] r.op = "iadd"  -> r.r = Add(F, r.a, OfInt(F, r.k))
    [] r.op = "iradd" -> r.r = Add(F, OfInt(F, r.k), r.a)
    [] r.op = "isub"  -> r.r = Sub(F, r.a, OfInt(F, r.k))
    [] r.op = "irsub" -> r.r = Sub(F, OfInt(F, r.k), r.a)
    [] r.op = "imul"  -> r.r = ScalarMul(F, r.a, r.k)
    [] r.op = "irmul" -> r.r = ScalarMul(F, r.a, r.k)
    [] r.op = "idiv"  -> IsElem(F, r.r) /\
                         (IF r.k % F.p = 0 THEN r.r = Zero(F)
                          ELSE ScalarMul(F, r.r, r.k) = r.a)
    [] r.op = "irdiv" -> IsElem(F, r.r) /\ IsQuot(F, OfInt(F, r.k), r.a, r.r)
    [] r.op = "eq"    -> r.r = B2N(r.a = r.b)
    [] r.op = "ne"    -> r.r = B2N(r.a # r.b)
    [] r.op = "ieq"   -> \* comparison with a CANONICAL int (0 <= k < p)
                         r.r = B2N(r.a = OfInt(F, r.k))
    [] r.op = "sgn0"  -> r.r = Sgn0(F, r.a)
    \* order of the prime-field classes (total_ordering): the order of the canonical representatives
    [] r.op = "lt"    -> r.r = B2N(r.a[1] < r.b[1])
    [] r.op = "le"    -> r.r = B2N(r.a[1] <= r.b[1])
    [] r.op = "gt"    -> r.r = B2N(r.a[1] > r.b[1])
    [] r.op = "ge"    -> r.r = B2N(r.a[1] >= r.b[1])
    [] r.op = "int"   -> r.r = r.a[1]                      \* int(x) is the canonical representative
    [] r.op = "one"   -> r.r = One(F)
    [] r.op = "zero"  -> r.r = Zero(F)
    \* augmented assignment on an ALIAS (y = x; y op= b): y is the result, and x (r.x) still is what it was
    [] r.op = "augadd" -> r.r = Add(F, r.a, r.b) /\ r.x = r.a
    [] r.op = "augsub" -> r.r = Sub(F, r.a, r.b) /\ r.x = r.a
    [] r.op = "augmul" -> r.r = Mul(F, r.a, r.b) /\ r.x = r.a
    [] r.op = "ctor"  -> r.r = OfInt(F, r.k)      \* FQ(k) for any int k
    [] r.op = "ctorv" -> r.r = [j \in 1..F.d |-> r.a[j] % F.p]   \* FQP(list of ints)
    [] OTHER -> FALSE

\* exhaustiveness claims: arity 1 over Elem, arity 2 over Elem x Elem
RECURSIVE IPow(_, _)
IPow(b, e) == IF e = 0 THEN 1 ELSE b * IPow(b, e - 1)
ClaimOK(c) ==
  LET F    == Fields[c.f]
      idx  == c.lo..c.hi
      size == IPow(F.p, F.d)
  IN /\ \A j \in idx : Rows[j].f = c.f /\ Rows[j].fam = c.fam /\ Rows[j].op = c.op
     /\ IF c.arity = 1
        THEN /\ c.hi - c.lo + 1 = size
             /\ Cardinality({Rows[j].a : j \in idx}) = size
        ELSE /\ c.hi - c.lo + 1 = size * size
             /\ Cardinality({<<Rows[j].a, Rows[j].b>> : j \in idx}) = size * size

Init == i = 0
Next == \/ i = 0 /\ i' \in 1..(IF Stride < Len(Rows) THEN Stride ELSE Len(Rows))
        \/ i > 0 /\ i + Stride <= Len(Rows) /\ i' = i + Stride
Spec == Init /\ [][Next]_i

FieldsOK == i = 0 => \A k \in 1..Len(Fields) : WellFormed(Fields[k])
ClaimsOK == i = 0 => \A k \in 1..Len(Claims) : ClaimOK(Claims[k])
\* an exception where a value is specified is a rejected row (exc is "" when none was raised)
RowsOK   == i > 0 => (Rows[i].exc = "" /\ RowOK(Rows[i]))
=============================================================================
