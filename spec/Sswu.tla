-------------------------------- MODULE Sswu --------------------------------
(***************************************************************************)
(* The simplified SWU map of RFC 9380 section 6.6.2 (C10), in RELATIONAL   *)
(* form over the fields of Field.tla.  For a curve E': y^2 = g(x) = x^3 +  *)
(* A x + B with A B # 0 and a non-square Z (Z # -1, g(B / (Z A)) square):  *)
(*    tv1 = Z^2 u^4 + Z u^2                                                *)
(*    x1  = (-B / A) (1 + 1 / tv1),   or  B / (Z A)  when tv1 = 0          *)
(*    x2  = Z u^2 x1                                                       *)
(*    x   = x1 if g(x1) is a square, else x2                               *)
(*    y   = the square root of g(x) with sgn0(y) = sgn0(u)                 *)
(* Because Z is a non-square, g(x2) = Z^3 u^6 g(x1) is a square exactly    *)
(* when g(x1) is not (u # 0), so the relation determines the RFC's         *)
(* straight-line result without computing a square root; UniqueImage       *)
(* states that fact and TLC checks it for every u of the toy fields.       *)
(***************************************************************************)
EXTENDS Curve

\* S = [F, A, B, Z]
G(S, x) == Add(S.F, Add(S.F, Cube(S.F, x), Mul(S.F, S.A, x)), S.B)

Tv1(S, u) == LET zu2 == Mul(S.F, S.Z, Sqr(S.F, u)) IN Add(S.F, Sqr(S.F, zu2), zu2)
X1(S, u) ==
  LET F == S.F t == Tv1(S, u) IN
  IF t = Zero(F) THEN Div(F, S.B, Mul(F, S.Z, S.A))
  ELSE Mul(F, Div(F, Neg(F, S.B), S.A), Add(F, One(F), InvF(F, t)))
X2(S, u) == Mul(S.F, Mul(S.F, S.Z, Sqr(S.F, u)), X1(S, u))
SwuX(S, u) == IF IsSquare(S.F, G(S, X1(S, u))) THEN X1(S, u) ELSE X2(S, u)

\* P = <<x, y>> is the image of u
IsSwu(S, u, P) ==
  /\ P[1] = SwuX(S, u)
  /\ Sqr(S.F, P[2]) = G(S, P[1])
  /\ Sgn0(S.F, P[2]) = Sgn0(S.F, u)

Premises(S) ==
  LET F == S.F IN
  /\ WellFormed(F) /\ F.p % 4 = 3 /\ (F.d = 2 => F.p % 8 = 3 /\ F.mc = <<1, 0>>)
  /\ S.A # Zero(F) /\ S.B # Zero(F)
  /\ ~IsSquare(F, S.Z) /\ S.Z # Neg(F, One(F))
  /\ IsSquare(F, G(S, Div(F, S.B, Mul(F, S.Z, S.A))))
  /\ \A x \in Elem(F) : G(S, x) # Zero(F)              \* odd order: no point with y = 0

\* the relation is a function of u (existence and uniqueness), checked by enumeration
UniqueImage(S) ==
  \A u \in Elem(S.F) :
    LET x  == SwuX(S, u)
        ys == {y \in Elem(S.F) : Sqr(S.F, y) = G(S, x) /\ Sgn0(S.F, y) = Sgn0(S.F, u)}
    IN Cardinality(ys) = 1
=============================================================================
