----------------------------- MODULE GroupTrace -----------------------------
(***************************************************************************)
(* Full-size conformance of the curve modules with the ABSTRACT GROUP they *)
(* implement (C07, C17, C18; section 2.4 of DESIGN.md).                    *)
(*                                                                         *)
(* Every point the harness builds is  a G + c T  where G is the generator  *)
(* of the subgroup of prime order R and T a torsion point of prime order   *)
(* ELL dividing the cofactor (ELL = 1: no torsion point, prime-order       *)
(* curve).  The specification tracks the pair (a mod R, c mod ELL) -- the  *)
(* discrete logarithm, in BigNat -- through every operation and predicts   *)
(*   - which results are equal (the recorder interns the canonical affine  *)
(*     coordinates of each concrete result as an id): two registers hold   *)
(*     the same abstract element IFF they carry the same id;               *)
(*   - eq / is_inf / is_on_curve / subgroup_check observations;            *)
(*   - cofactor clearing = multiplication by the effective cofactor of     *)
(*     StdConstants.tla (HEFF).                                            *)
(* The map (a, c) |-> a G + c T is injective because ord(G) = R and        *)
(* ord(T) = ELL are distinct primes (the trace contains the events that    *)
(* establish ELL T = O and T # O through the same code).                   *)
(*                                                                         *)
(* One event per line; the trace is consumed in order (variable l); a      *)
(* rejected event sets ok = FALSE, which the invariant reports with l.     *)
(***************************************************************************)
EXTENDS StdConstants, FiniteSets, Json, IOUtils

Trace  == ndJsonDeserialize(IOEnv.TRACE)
Params == ndJsonDeserialize(IOEnv.PARAMS)[1]     \* [curve |-> "bls"|"bn"|"secp", group |-> 1|2, ell |-> prime or 1]
\* the group order and the effective cofactor come from StdConstants.tla, never from the trace
R    == CASE Params.curve = "bls" -> BlsR [] Params.curve = "bn" -> BnR [] Params.curve = "secp" -> SecpN
ELL  == Params.ell
\* the second component is tracked mod ELLB: the small torsion prime, or R itself for the traces on the
\* degree-12 curve, where the two generators are twist(G2) and the image of G1 (E(Fp12)[r] = Z_r x Z_r)
ELLB == IF Params.ell = 0 THEN R ELSE OfInt(Params.ell)
HEFF == IF Params.group = 1 THEN BlsHEff1 ELSE BlsHEff2

VARIABLES l, abs, cid, ok
vars == <<l, abs, cid, ok>>

B2N(b) == IF b THEN 1 ELSE 0
El(a, c) == [a |-> a, c |-> c]
GAdd(x, y) == El(AddMod(x.a, y.a, R), AddMod(x.c, y.c, ELLB))
GNeg(x)    == El(NegMod(x.a, R), NegMod(x.c, ELLB))
\* n-fold sum for a natural n (BigNat):  n (aG + cT) = (n a mod R) G + (n c mod ELL) T
GMul(x, n) == El(MulMod(x.a, Mod(n, R), R), MulMod(x.c, Mod(n, ELLB), ELLB))
GInf == El(Zero, Zero)

Produces(e) == e.op \in {"gen", "tor", "inf", "add", "double", "neg", "mul", "same", "clear"}

NewVal(e) ==
  CASE e.op = "gen"    -> El(One, Zero)
    [] e.op = "tor"    -> El(Zero, Mod(One, ELLB))
    [] e.op = "inf"    -> GInf
    [] e.op = "add"    -> GAdd(abs[e.a], abs[e.b])
    [] e.op = "double" -> GAdd(abs[e.a], abs[e.a])
    [] e.op = "neg"    -> GNeg(abs[e.a])
    [] e.op = "mul"    -> IF e.sg < 0 THEN GNeg(GMul(abs[e.a], e.n)) ELSE GMul(abs[e.a], e.n)
    [] e.op = "same"   -> abs[e.a]       \* another representative / a conversion of the same point
    [] e.op = "clear"  -> GMul(abs[e.a], HEFF)

ObsOK(e) ==
  CASE e.op = "eq"    -> e.res = B2N(abs[e.a] = abs[e.b])
    [] e.op = "isinf" -> e.res = B2N(abs[e.a] = GInf)
    [] e.op = "onc"   -> e.res = 1                    \* every point built by group operations is on the curve
    [] e.op = "sub"   -> e.res = B2N(abs[e.a].c = Zero)   \* subgroup_check: no cofactor component
    \* cofactor clearing of an arbitrary curve point W (unknown logarithm): it equals multiply(W, n)
    \* for the n the library used, n is the specification's effective cofactor, and the result is
    \* in the subgroup
    [] e.op = "clrany" -> e.n = HEFF /\ e.id = e.id2 /\ e.res = 1
    [] OTHER -> FALSE

\* equal abstract element <=> equal concrete id, against every earlier register
Consistent(v, id) == \A j \in 1..Len(abs) : (abs[j] = v) <=> (cid[j] = id)

Init == l = 1 /\ abs = <<>> /\ cid = <<>> /\ ok = TRUE
Next ==
  /\ l <= Len(Trace) /\ ok
  /\ l' = l + 1
  /\ LET e == Trace[l] IN
     IF e.exc # "" THEN ok' = FALSE /\ UNCHANGED <<abs, cid>>
     ELSE IF Produces(e)
     THEN LET v == NewVal(e) IN
          /\ abs' = Append(abs, v) /\ cid' = Append(cid, e.id)
          /\ ok' = (e.d = Len(abs) + 1 /\ Consistent(v, e.id)
                    /\ (e.op = "clear" => v.c = Zero))       \* clearing lands in the subgroup
     ELSE /\ UNCHANGED <<abs, cid>>
          /\ ok' = ObsOK(e)
Spec == Init /\ [][Next]_vars

Accepted == ok
\* non-vacuity, printed when the trace is fully consumed
Done == l = Len(Trace) + 1 =>
  PrintT(<<"consumed", Len(Trace), "registers", Len(abs), "distinct", Cardinality({cid[j] : j \in 1..Len(cid)})>>)
=============================================================================
