---------------------------- MODULE CurveMachine ----------------------------
(***************************************************************************)
(* A register machine over one elliptic curve of Curve.tla: the abstract   *)
(* machine behind C07 / C13 / C18.  Registers hold ABSTRACT points (affine *)
(* pairs or INF); every action is one call of the curve API of py_ecc      *)
(* (add, double, neg, multiply, normalize; observations eq, is_inf,        *)
(* is_on_curve).                                                           *)
(*                                                                         *)
(*  (A) exhaustive model checking: the group laws are invariants of every  *)
(*      reachable register file (the affine chord-and-tangent law of       *)
(*      Curve.tla IS an abelian group on the curve);                       *)
(*  (B) spec -> code: `tlc -simulate` behaviours (straight-line programs   *)
(*      with the point the SPEC assigns to the destination register) are   *)
(*      replayed into the four curve modules and secp256k1, where the      *)
(*      registers hold whatever REPRESENTATIVES the code itself produced   *)
(*      (projective / Jacobian coordinates with arbitrary scalings carried *)
(*      from step to step); after every step the abstraction of the        *)
(*      code's register must be the spec's point.                          *)
(***************************************************************************)
EXTENDS Curve, Json

CONSTANTS C,        \* curve [F, a, b, order]  (order = number of points; used only for negative scalars)
          Seeds,    \* set of initial register contents (points of the curve, INF included)
          NReg,     \* number of registers
          Scalars,  \* set of integers for multiply (negative ones only for secp256k1-shaped instances)
          Depth     \* length of the behaviours dumped for replay

VARIABLES regs, hist, start
vars == <<regs, hist, start>>

R == 1..NReg
B2N(b) == IF b THEN 1 ELSE 0

Ev(op, d, a, b, n, v) == [op |-> op, d |-> d, a |-> a, b |-> b, n |-> n, v |-> v]

Set(d, v, e) == /\ regs' = [regs EXCEPT ![d] = v]
                /\ hist' = Append(hist, e)
                /\ UNCHANGED start
Obs(e) == /\ UNCHANGED <<regs, start>>
          /\ hist' = Append(hist, e)

\* multiply(P, n): the n-fold sum; a negative n (secp256k1 only) acts as n mod the group order
Times(P, n) == MulBits(C, P, Bits(IF n >= 0 THEN n ELSE n % C.order))

AddA(d, a, b) == LET v == PAdd(C, regs[a], regs[b]) IN Set(d, v, Ev("add", d, a, b, 0, v))
DoubleA(d, a) == LET v == PDouble(C, regs[a]) IN Set(d, v, Ev("double", d, a, 0, 0, v))
NegA(d, a)    == LET v == PNeg(C, regs[a]) IN Set(d, v, Ev("neg", d, a, 0, 0, v))
MulA(d, a, n) == LET v == Times(regs[a], n) IN Set(d, v, Ev("mul", d, a, 0, n, v))
\* another representative of the same point (normalize / from_jacobian . to_jacobian)
NormA(d, a)   == LET v == regs[a] IN Set(d, v, Ev("norm", d, a, 0, 0, v))
EqA(a, b)     == Obs(Ev("eq", 0, a, b, 0, <<B2N(regs[a] = regs[b])>>))
IsInfA(a)     == Obs(Ev("isinf", 0, a, 0, 0, <<B2N(regs[a] = INF)>>))
OnCurveA(a)   == Obs(Ev("onc", 0, a, 0, 0, <<B2N(OnCurve(C, regs[a]))>>))

Init == /\ regs \in [R -> Seeds]
        /\ hist = <<>>
        /\ start = regs

Next == \/ \E d, a, b \in R : AddA(d, a, b)
        \/ \E d, a \in R : DoubleA(d, a) \/ NegA(d, a) \/ NormA(d, a)
        \/ \E d, a \in R, n \in Scalars : MulA(d, a, n)
        \/ \E a, b \in R : EqA(a, b)
        \/ \E a \in R : IsInfA(a) \/ OnCurveA(a)

Spec == Init /\ [][Next]_vars

(***************************************************************************)
(* (A) the group laws on every reachable register file                     *)
(***************************************************************************)
TypeOK == \A r \in R : IsPoint(C, regs[r]) /\ OnCurve(C, regs[r])

Laws ==
  \A x \in R, y \in R, z \in R :
    LET P == regs[x] Q == regs[y] S == regs[z] IN
    /\ OnCurve(C, PAdd(C, P, Q))
    /\ PAdd(C, P, Q) = PAdd(C, Q, P)
    /\ PAdd(C, PAdd(C, P, Q), S) = PAdd(C, P, PAdd(C, Q, S))
    /\ PAdd(C, P, INF) = P /\ PAdd(C, INF, P) = P
    /\ PAdd(C, P, PNeg(C, P)) = INF
    /\ PDouble(C, P) = PAdd(C, P, P)

\* the second scalar of the binary laws ranges over a few small values and order - 1 (the laws are then implied
\* for all pairs by induction; keeps the check linear in the number of scalars)
Seconds == {m \in Scalars : m \in 0..3 \/ m = C.order - 1}
ScalarLaws ==
  \A x \in R : \A n \in Scalars : \A m \in Seconds :
    LET P == regs[x] IN
    /\ Times(P, C.order) = INF
    /\ (n >= 0 /\ n <= 40 => Times(P, n) = NFold(C, P, n))
    /\ (n >= 0 /\ m >= 0 => Times(P, n + m) = PAdd(C, Times(P, n), Times(P, m)))
    /\ (n >= 0 /\ m >= 0 /\ n * m < 100000 => Times(P, n * m) = Times(Times(P, n), m))
    /\ Times(P, n) = Times(P, n % C.order)

\* spec -> code: dump every behaviour of length Depth as JSON (one line per behaviour)
Dump == Len(hist) # Depth \/ PrintT(ToJson([start |-> start, hist |-> hist]))
RegView == regs
=============================================================================
