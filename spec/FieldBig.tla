------------------------------ MODULE FieldBig ------------------------------
(***************************************************************************)
(* Full-size conformance of the twelve built-in field classes (FQ, FQ2,    *)
(* FQ12 of alt_bn128 and BLS12-381, reference and optimized) with the      *)
(* field they implement (C08, C14), recomputed by TLC over BigNat:         *)
(*   Fp               integers mod p (p derived in StdConstants.tla)       *)
(*   Fp2 = Fp[i]/(i^2 + 1)                                                 *)
(*   Fp12 = Fp[w]/(w^12 - 18 w^6 + 82)  (bn)   /  (w^12 - 2 w^6 + 2) (bls) *)
(* An element is a tuple of 1, 2 or 12 BigNat coefficients.  Division and  *)
(* inversion are checked by multiplication; exponentiation by its laws:    *)
(* x^0 = 1, x^1 = x, x^(a+b) = x^a x^b, (x^a)^b = x^(a b), so that values  *)
(* for exponents of thousands of bits are tied to products TLC can afford. *)
(*   row: [curve, fam, d, op, a, b, c (elements), k (int as [sg, n]),      *)
(*         r |-> result element or 0/1]                                    *)
(***************************************************************************)
EXTENDS StdConstants, Json, IOUtils

Rows   == ndJsonDeserialize(IOEnv.TABLE)
Stride == 4
VARIABLE i

PrimeOf(c) == IF c = "bls" THEN BlsP ELSE BnP
IsEl(p, d, a) == Len(a) = d /\ \A k \in 1..d : IsNat(a[k]) /\ Less(a[k], p)
ZeroE(d) == [k \in 1..d |-> Zero]
OneE(d)  == [k \in 1..d |-> IF k = 1 THEN One ELSE Zero]
EAdd(p, a, b) == [k \in 1..Len(a) |-> AddMod(a[k], b[k], p)]
ESub(p, a, b) == [k \in 1..Len(a) |-> SubMod(a[k], b[k], p)]
ENeg(p, a)    == [k \in 1..Len(a) |-> NegMod(a[k], p)]

\* Fp12: schoolbook product (unreduced coefficient sums, one reduction per coefficient), then
\* w^12 = m6 w^6 - m0  with (m6, m0) = (18, 82) for bn and (2, 2) for bls, from the top coefficient down
Conv12(p, a, b) ==
  [k \in 1..23 |->
     Mod(FoldLeft(LAMBDA acc, j : IF k + 1 - j >= 1 /\ k + 1 - j <= 12 THEN Add(acc, Mul(a[j], b[k + 1 - j])) ELSE acc,
                  Zero, Ix(12)), p)]
RECURSIVE Red12(_, _, _, _)
Red12(p, m6, m0, c) ==
  IF Len(c) <= 12 THEN c
  ELSE LET n == Len(c) top == c[n] IN
       Red12(p, m6, m0,
             [k \in 1..(n - 1) |->
                IF k = n - 6 THEN AddMod(c[k], MulMod(top, m6, p), p)
                ELSE IF k = n - 12 THEN SubMod(c[k], MulMod(top, m0, p), p)
                ELSE c[k]])
EMul(curve, a, b) ==
  LET p == PrimeOf(curve) IN
  CASE Len(a) = 1  -> <<MulMod(a[1], b[1], p)>>
    [] Len(a) = 2  -> F2Mul(p, a, b)
    [] Len(a) = 12 -> IF curve = "bn" THEN Red12(p, N(18), N(82), Conv12(p, a, b))
                                      ELSE Red12(p, N(2), N(2), Conv12(p, a, b))

IntE(p, d, k) == LET m == Mod(k.n, p) IN
                 [j \in 1..d |-> IF j = 1 THEN (IF k.sg < 0 THEN NegMod(m, p) ELSE m) ELSE Zero]

RowOK(r) ==
  LET p == PrimeOf(r.curve) d == r.d IN
  /\ (r.op \notin {"eq", "sgn0"} => IsEl(p, d, r.r))                    \* canonical (reduced) representatives
  /\ CASE r.op = "add" -> r.r = EAdd(p, r.a, r.b)
       [] r.op = "sub" -> r.r = ESub(p, r.a, r.b)
       [] r.op = "neg" -> r.r = ENeg(p, r.a)
       [] r.op = "mul" -> r.r = EMul(r.curve, r.a, r.b)
       [] r.op = "div" -> IF r.b = ZeroE(d) THEN r.r = ZeroE(d) ELSE EMul(r.curve, r.r, r.b) = r.a
       [] r.op = "inv" -> IF r.a = ZeroE(d) THEN r.r = ZeroE(d) ELSE EMul(r.curve, r.r, r.a) = OneE(d)
       [] r.op = "eq"  -> r.r = (IF r.a = r.b THEN 1 ELSE 0)
       [] r.op = "iadd" -> r.r = EAdd(p, r.a, IntE(p, d, r.k))
       [] r.op = "isub" -> r.r = ESub(p, r.a, IntE(p, d, r.k))
       [] r.op = "irsub" -> r.r = ESub(p, IntE(p, d, r.k), r.a)
       [] r.op = "imul" -> r.r = EMul(r.curve, r.a, IntE(p, d, r.k))
       [] r.op = "idiv" -> IF IntE(p, d, r.k) = ZeroE(d) THEN r.r = ZeroE(d)
                           ELSE EMul(r.curve, r.r, IntE(p, d, r.k)) = r.a
       [] r.op = "pow0" -> r.r = OneE(d)                                  \* x ** 0
       [] r.op = "pow1" -> r.r = r.a                                      \* x ** 1
       [] r.op = "pow2" -> r.r = EMul(r.curve, r.a, r.a)                   \* x ** 2
       \* b = x ** e1, c = x ** e2, r = x ** (e1 + e2)
       [] r.op = "powadd" -> IsEl(p, d, r.b) /\ IsEl(p, d, r.c) /\ r.r = EMul(r.curve, r.b, r.c)
       \* b = (x ** e1) ** e2, r = x ** (e1 e2)
       [] r.op = "powmul" -> r.r = r.b
       \* x ** (|F| - 1) = 1 for x # 0 (exponents of 254 .. 4570 bits)
       [] r.op = "powq1" -> r.r = (IF r.a = ZeroE(d) THEN ZeroE(d) ELSE OneE(d))
       [] r.op = "sgn0" -> r.r = (IF d = 1 THEN (IF r.a[1] = Zero THEN 0 ELSE r.a[1][1] % 2)
                                  ELSE LET rec[k \in 1..d] ==    \* <<sign so far, all zero so far>>
                                             IF k = 1 THEN <<IF r.a[1] = Zero THEN 0 ELSE r.a[1][1] % 2, r.a[1] = Zero>>
                                             ELSE LET pr == rec[k - 1]
                                                      sk == IF r.a[k] = Zero THEN 0 ELSE r.a[k][1] % 2
                                                  IN <<IF pr[1] = 1 \/ (pr[2] /\ sk = 1) THEN 1 ELSE 0, pr[2] /\ r.a[k] = Zero>>
                                       IN rec[d][1])
       [] OTHER -> FALSE

Init == i = 0
Next == \/ i = 0 /\ i' \in 1..(IF Stride < Len(Rows) THEN Stride ELSE Len(Rows))
        \/ i > 0 /\ i + Stride <= Len(Rows) /\ i' = i + Stride
Spec == Init /\ [][Next]_i
RowsOK == i > 0 => (Rows[i].exc = "" /\ RowOK(Rows[i]))
=============================================================================
