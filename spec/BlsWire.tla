------------------------------ MODULE BlsWire ------------------------------
(***************************************************************************)
(* Byte-level dataflow of SkToPk / Sign / PopProve / Aggregate (C09): the  *)
(* outputs are the byte strings of the IETF suites                         *)
(*   BLS_SIG_BLS12381G2_XMD:SHA-256_SSWU_RO_{NUL,AUG,POP}_ :               *)
(*   PK  = compress(sk * G1)                                               *)
(*   sig = compress(sk * hash_to_curve(input, DST)),  input = PK || m in   *)
(*         the augmentation suite, m otherwise                             *)
(*   PopProve(sk) = compress(sk * hash_to_curve(PK, POP_TAG))              *)
(*   Aggregate = compress(sum of the decoded signatures)                   *)
(* The recorder wraps the component functions of a private copy of         *)
(* py_ecc.bls.ciphersuites (multiply, hash_to_G2, G1_to_pubkey,            *)
(* G2_to_signature, signature_to_G2, add) and interns every point as an    *)
(* id.  This spec requires that each API call made exactly the component   *)
(* calls the draft prescribes, with the draft's tag bytes (BlsTags.tla),   *)
(* the standard generator, the caller's scalar, SHA-256, and that the      *)
(* returned bytes are the encoding of the last component result.  The      *)
(* components themselves are decided by C07 (multiply, add), C10           *)
(* (hash_to_G2) and C11 (compression).  Anchor: SkToPk(1) is the pinned    *)
(* compressed generator.                                                   *)
(*  row: [api, suite, sk |-> limbs, msg |-> bytes, sigs |-> <<bytes>>,     *)
(*        calls |-> <<[fn, p, q |-> ids, n |-> limbs, msg, dst |-> bytes,  *)
(*        hash, out |-> id, bytes]>>, ret |-> bytes, g1, z2 |-> ids]       *)
(***************************************************************************)
EXTENDS StdConstants, BlsTags, Json, IOUtils

Rows   == ndJsonDeserialize(IOEnv.TABLE)
Stride == 8
VARIABLE i

Dst(s) == CASE s = "basic" -> DstNul [] s = "aug" -> DstAug [] s = "pop" -> DstPop

\* calls c[k], c[k+1] are  multiply(G1, sk) -> a ; G1_to_pubkey(a) -> pk
IsSkToPk(r, c, k, pk) ==
  /\ c[k].fn = "multiply" /\ c[k].p = r.g1 /\ c[k].n = r.sk
  /\ c[k + 1].fn = "G1_to_pubkey" /\ c[k + 1].p = c[k].out /\ c[k + 1].bytes = pk /\ Len(pk) = 48

\* calls c[k..k+2] are  hash_to_G2(input, tag, sha256) -> h ; multiply(h, sk) -> s ; G2_to_signature(s) -> sig
IsCoreSign(r, c, k, input, tag, sig) ==
  /\ c[k].fn = "hash_to_G2" /\ c[k].msg = input /\ c[k].dst = tag /\ c[k].hash = "sha256"
  /\ c[k + 1].fn = "multiply" /\ c[k + 1].p = c[k].out /\ c[k + 1].n = r.sk
  /\ c[k + 2].fn = "G2_to_signature" /\ c[k + 2].p = c[k + 1].out /\ c[k + 2].bytes = sig /\ Len(sig) = 96

\* the add events form a summation of the decoded points (each used exactly once; the identity seed may be
\* used or not), whatever the order or grouping
RECURSIVE SumTree(_, _, _)
SumTree(avail, adds, k) ==       \* avail: sequence of ids still to be consumed
  IF k > Len(adds) THEN avail
  ELSE LET a == adds[k]
           hasP == \E j \in 1..Len(avail) : avail[j] = a.p
       IN IF ~hasP THEN <<0 - 1>>
          ELSE LET jp == CHOOSE j \in 1..Len(avail) : avail[j] = a.p
                   rest == [m \in 1..(Len(avail) - 1) |-> IF m < jp THEN avail[m] ELSE avail[m + 1]]
                   hasQ == \E j \in 1..Len(rest) : rest[j] = a.q
               IN IF ~hasQ THEN <<0 - 1>>
                  ELSE LET jq == CHOOSE j \in 1..Len(rest) : rest[j] = a.q
                           rest2 == [m \in 1..(Len(rest) - 1) |-> IF m < jq THEN rest[m] ELSE rest[m + 1]]
                       IN SumTree(Append(rest2, a.out), adds, k + 1)

Sel(c, f) == SelectSeq(c, LAMBDA x : x.fn = f)

(***************************************************************************)
(* The same definitions as executable PLANS (spec -> code): a plan is a    *)
(* sequence of component applications over named values; the harness       *)
(* interprets it with the library's component functions (the generic       *)
(* multiply, hash_to_G2, the compression helpers) and the API's output     *)
(* must be the plan's result.  The tag bytes travel inside the plan, i.e.  *)
(* they come from this specification.                                      *)
(***************************************************************************)
St(o, f, a, lit) == [o |-> o, f |-> f, a |-> a, lit |-> lit]
PlanPk == <<St("A", "multiply", <<"G1", "sk">>, <<>>), St("PK", "G1_to_pubkey", <<"A">>, <<>>)>>
PlanCore(input, tag) ==
  <<St("TAG", "literal", <<>>, tag), St("H", "hash_to_G2_sha256", <<input, "TAG">>, <<>>),
    St("S", "multiply", <<"H", "sk">>, <<>>), St("OUT", "G2_to_signature", <<"S">>, <<>>)>>
Plan(api, s) ==
  CASE api = "SkToPk" -> PlanPk \o <<St("OUT", "copy", <<"PK">>, <<>>)>>
    [] api = "Sign" /\ s = "aug" -> PlanPk \o <<St("IN", "concat", <<"PK", "msg">>, <<>>)>> \o PlanCore("IN", DstAug)
    [] api = "Sign" -> PlanCore("msg", Dst(s))
    [] api = "PopProve" -> PlanPk \o PlanCore("PK", PopTagBytes)
    [] api = "Aggregate" -> <<St("PTS", "map_signature_to_G2", <<"sigs">>, <<>>), St("SUM", "sum_G2", <<"PTS">>, <<>>),
                              St("OUT", "G2_to_signature", <<"SUM">>, <<>>)>>
Apis == {<<"SkToPk", "basic">>, <<"SkToPk", "aug">>, <<"SkToPk", "pop">>, <<"Sign", "basic">>, <<"Sign", "aug">>,
         <<"Sign", "pop">>, <<"PopProve", "pop">>, <<"Aggregate", "basic">>, <<"Aggregate", "aug">>, <<"Aggregate", "pop">>}
DumpPlans == i = 0 => \A x \in Apis : PrintT(ToJson([api |-> x[1], suite |-> x[2], plan |-> Plan(x[1], x[2])]))

RowOK(r) ==
  LET c == r.calls IN
  IF r.mode = "plan" THEN /\ r.ret = r.exp /\ Len(r.ret) = (IF r.api = "SkToPk" THEN 48 ELSE 96)   \* API output = plan result
                          /\ (r.api = "Aggregate" /\ Len(r.sigs) = 1 => r.ret = r.sigs[1])
  ELSE
  CASE r.api = "SkToPk" ->
         /\ Len(c) = 2 /\ IsSkToPk(r, c, 1, r.ret)
         \* anchor: the public key of sk = 1 is the compressed standard generator
         /\ (r.sk = One => r.ret = ToBytes(Add(BlsG1x, Pow2(383)), 48))
    [] r.api = "Sign" /\ r.suite \in {"basic", "pop"} ->
         Len(c) = 3 /\ IsCoreSign(r, c, 1, r.msg, Dst(r.suite), r.ret)
    [] r.api = "Sign" /\ r.suite = "aug" ->
         /\ Len(c) = 5 /\ IsSkToPk(r, c, 1, c[2].bytes)
         /\ IsCoreSign(r, c, 3, c[2].bytes \o r.msg, DstAug, r.ret)          \* PK || message
    [] r.api = "PopProve" ->
         /\ Len(c) = 5 /\ IsSkToPk(r, c, 1, c[2].bytes)
         /\ IsCoreSign(r, c, 3, c[2].bytes, PopTagBytes, r.ret)               \* the key signs itself under POP_TAG
    [] r.api = "Aggregate" ->
         LET dec  == Sel(c, "signature_to_G2")
             adds == Sel(c, "add")
             enc  == Sel(c, "G2_to_signature")
         IN /\ Len(c) = Len(dec) + Len(adds) + Len(enc)
            /\ Len(dec) = Len(r.sigs) /\ \A k \in 1..Len(dec) : dec[k].bytes = r.sigs[k]   \* each decoded once, in order
            /\ Len(enc) = 1 /\ enc[1].bytes = r.ret /\ Len(r.ret) = 96
            /\ (Len(r.sigs) = 1 => r.ret = r.sigs[1])        \* the canonical encoding of one accepted point is itself
            \* a sum that is the identity is encoded as the ZCash infinity word: 0xc0 followed by 95 zero bytes
            /\ (enc[1].p = r.z2 => r.ret = <<192>> \o [k \in 1..95 |-> 0])
            /\ LET left == SumTree([k \in 1..(Len(dec) + 1) |-> IF k = 1 THEN r.z2 ELSE dec[k - 1].out], adds, 1)
               IN left = <<enc[1].p>> \/ left = <<r.z2, enc[1].p>> \/ left = <<enc[1].p, r.z2>>
    [] OTHER -> FALSE

Init == i = 0
Next == \/ i = 0 /\ i' \in 1..(IF Stride < Len(Rows) THEN Stride ELSE Len(Rows))
        \/ i > 0 /\ i + Stride <= Len(Rows) /\ i' = i + Stride
Spec == Init /\ [][Next]_i
RowsOK == i > 0 => (Rows[i].exc = "" /\ RowOK(Rows[i]))
=============================================================================
