------------------------------- MODULE Bytes -------------------------------
(***************************************************************************)
(* Byte strings as sequences over 0..255, with the conversions of RFC 8017 *)
(* (I2OSP / OS2IP) for values that fit TLC's 32-bit integers, and bit      *)
(* views used to compare byte strings with limb-encoded naturals.          *)
(***************************************************************************)
EXTENDS Integers, Sequences, SequencesExt, TLC

IsBytes(s) == DOMAIN s = 1..Len(s) /\ \A k \in 1..Len(s) : s[k] \in 0..255
Rep(b, n)  == [k \in 1..n |-> b]                      \* n copies of byte b
Slice(s, lo, hi) == IF hi < lo THEN <<>> ELSE [k \in 1..(hi - lo + 1) |-> s[lo + k - 1]]   \* 1-based, inclusive
Take(s, n) == Slice(s, 1, n)
Drop(s, n) == Slice(s, n + 1, Len(s))

XorBit(a, b) == IF a = b THEN 0 ELSE 1
RECURSIVE XorByte(_, _, _)
XorByte(a, b, n) == IF n = 0 THEN 0
                    ELSE XorBit(a % 2, b % 2) + 2 * XorByte(a \div 2, b \div 2, n - 1)
StrXor(a, b) == [k \in 1..Len(a) |-> XorByte(a[k], b[k], 8)]

\* I2OSP for small values (v < 2^31), big-endian, exactly n bytes; undefined (<<"overflow">>) otherwise
RECURSIVE I2OSPr(_, _)
I2OSPr(v, n) == IF n = 0 THEN <<>> ELSE Append(I2OSPr(v \div 256, n - 1), v % 256)
Fits(v, n) == n >= 4 \/ v < 256 ^ n
I2OSP(v, n) == IF Fits(v, n) THEN I2OSPr(v, n) ELSE <<"overflow">>
\* OS2IP for strings whose value fits 31 bits
OS2IPs(s) == FoldLeft(LAMBDA acc, b : acc * 256 + b, 0, s)

\* bits of a byte string, least significant bit of the LAST byte first (the bits of OS2IP(s))
BitsOfBytes(s) ==
  LET n == Len(s) IN
  [k \in 1..(8 * n) |-> (s[n - ((k - 1) \div 8)] \div (2 ^ ((k - 1) % 8))) % 2]
=============================================================================
