------------------------------ MODULE MC_Ecdsa ------------------------------
(***************************************************************************)
(* Exhaustive check of the ECDSA specification on a toy instance:          *)
(*  C06  for every key d, hash value z and nonce k on which signing is     *)
(*       regular: v in {27,28}, 1 <= r < n, 1 <= s <= n/2, the signature   *)
(*       verifies for dG, recovery returns dG and the other v does not;    *)
(*  C19  for every (z, v, r, s): the code's recovery procedure refuses     *)
(*       exactly when the mathematics says so and otherwise returns the    *)
(*       unique Q with (r mod n) Q = s R - z G, for which (r, s) verifies. *)
(* The work is spread over states so that TLC's workers share it.          *)
(***************************************************************************)
EXTENDS Ecdsa, IOUtils

E  == [p |-> atoi(IOEnv.EP), b |-> atoi(IOEnv.EB), n |-> atoi(IOEnv.EN),
       gx |-> atoi(IOEnv.EGX), gy |-> atoi(IOEnv.EGY)]
ZMax == atoi(IOEnv.ZMAX)
KMax == atoi(IOEnv.KMAX)
SMax == atoi(IOEnv.SMAX)
Vs == {0, 1, 26, 27, 28, 29, 35, 36}

Other(v) == IF v = 27 THEN 28 ELSE 27

SignTheorem(d, z) ==
  \A k \in 0..KMax :
    SignRegular(E, z, d, k) =>
      LET sg == SignCode(E, z, d, k)
          Q  == SMul(E, Gen(E), d)
      IN /\ sg[1] \in {27, 28}
         /\ 1 <= sg[2] /\ sg[2] < E.n
         /\ 1 <= sg[3] /\ 2 * sg[3] <= E.n
         /\ Verifies(E, z, sg[2], sg[3], Q)
         /\ RecoverCode(E, z, sg[1], sg[2], sg[3]) = Q
         /\ RecoverCode(E, z, Other(sg[1]), sg[2], sg[3]) # Q
         \* the signature does not depend on which representative of k mod n is used
         /\ (k >= E.n => sg = SignCode(E, z, d, k - E.n))

RecoverTheorem(v, r) ==
  \A s \in 0..SMax, z \in 0..ZMax :
    LET Q == RecoverCode(E, z, v, r, s) IN
    /\ Q = RecoverSpec(E, z, v, r, s)
    /\ (Q # ERR => /\ OnCurve(CurveOf(E), Q)
                   /\ RecoverLaw(E, z, v, r, s, Q)
                   /\ Verifies(E, z, r, s, Q))

VARIABLE st
\* level 0: one root; level 1: one state per unit of work (cheap to generate); level 2: the unit's
\* verdict, computed in the next-state relation so that TLC's workers share the units
Init == st = <<"root">>
Next == \/ st[1] = "root" /\ \/ \E d \in 1..(E.n - 1), z \in 0..ZMax : st' = <<"sign", d, z>>
                             \/ \E v \in Vs, r \in 0..(E.p - 1) : st' = <<"rec", v, r>>
        \/ st[1] = "sign" /\ st' = <<"done", "sign", st[2], st[3], SignTheorem(st[2], st[3])>>
        \/ st[1] = "rec" /\ st' = <<"done", "rec", st[2], st[3], RecoverTheorem(st[2], st[3])>>
Spec == Init /\ [][Next]_st

Premises == InstanceOK(E)
PremisesInv == st = <<"root">> => Premises
SignInv  == (st[1] = "done" /\ st[2] = "sign") => st[5]
RecInv   == (st[1] = "done" /\ st[2] = "rec") => st[5]
\* non-vacuity: how many (d, z, k) are regular (printed once, from the first key)
RegularCount == st = <<"root">> =>
  PrintT(<<"regular", Cardinality({zk \in (0..ZMax) \X (0..KMax) : SignRegular(E, zk[1], 1, zk[2])}),
           "of", (ZMax + 1) * (KMax + 1)>>)
=============================================================================
