-------------------------- MODULE MC_ProjIdentities --------------------------
(***************************************************************************)
(* The projective / Jacobian formulas of ProjFormulas.tla ARE the affine   *)
(* chord-and-tangent law: polynomial identities over the integers (C13),   *)
(* proved by TLC with the following argument.                              *)
(*   Let f = LHS - RHS, an integer polynomial whose degree in variable x_i *)
(*   is at most d_i and whose coefficients are bounded in absolute value   *)
(*   by the sum B of the absolute coefficients of LHS and RHS.  TLC        *)
(*   evaluates f modulo the prime Q = 32749 at EVERY point of the grid     *)
(*   {0..g_1} x ... x {0..g_n} with g_i >= d_i (and g_i < Q) and finds 0.  *)
(*   A polynomial over the field GF(Q) of degree <= g_i in x_i that        *)
(*   vanishes on such a grid is the zero polynomial, so Q divides every    *)
(*   coefficient of f; since B < Q, f = 0 over the integers.  An identity  *)
(*   of integer polynomials holds in every commutative ring, hence in      *)
(*   every field of any characteristic and for every scaling.              *)
(* Degrees and coefficient sums (from the expanded forms; margins taken):  *)
(*   doubling   d <= (6,7,7),              B <= 1136                       *)
(*   addition   d <= (6,3,9,6,3,8),        B <= 288                        *)
(*   Jacobian   doubling d <= (6,7,8), B <= 1136;                          *)
(*              addition d <= (6,3,23,6,3,20), B <= 288                    *)
(*   homogeneity statements: degree <= 6 in the scaling parameter.         *)
(* The denominators are the cross-multiplied ones, so no division occurs.  *)
(***************************************************************************)
EXTENDS Integers, TLC
Q == 32749
PF == INSTANCE ProjFormulas WITH P <- Q
mm(a, b) == (a * b) % Q

\* ---- the identities, as predicates at one point
DblOK(X, Y, Z) ==
  /\ mm(PF!DblX(X, Y, Z), PF!TanX3d(X, Y, Z)) = mm(PF!DblZ(X, Y, Z), PF!TanX3n(X, Y, Z))
  /\ mm(PF!DblY(X, Y, Z), PF!TanY3d(X, Y, Z)) = mm(PF!DblZ(X, Y, Z), PF!TanY3n(X, Y, Z))
AddOK(X1, Y1, Z1, X2, Y2, Z2) ==
  /\ mm(PF!AddX(X1, Y1, Z1, X2, Y2, Z2), PF!ChX3d(X1, Y1, Z1, X2, Y2, Z2))
       = mm(PF!AddZ(X1, Y1, Z1, X2, Y2, Z2), PF!ChX3n(X1, Y1, Z1, X2, Y2, Z2))
  /\ mm(PF!AddY(X1, Y1, Z1, X2, Y2, Z2), PF!ChY3d(X1, Y1, Z1, X2, Y2, Z2))
       = mm(PF!AddZ(X1, Y1, Z1, X2, Y2, Z2), PF!ChY3n(X1, Y1, Z1, X2, Y2, Z2))
JDblOK(X, Y, Z) ==
  LET nz == PF!JDblZ(X, Y, Z) IN
  /\ mm(PF!JDblX(X, Y, Z), PF!JTanX3d(X, Y, Z)) = mm(PF!JTanX3n(X, Y, Z), mm(nz, nz))
  /\ mm(PF!JDblY(X, Y, Z), PF!JTanY3d(X, Y, Z)) = mm(PF!JTanY3n(X, Y, Z), mm(nz, mm(nz, nz)))
JAddOK(X1, Y1, Z1, X2, Y2, Z2) ==
  LET nz == PF!JAddZ(X1, Y1, Z1, X2, Y2, Z2) IN
  /\ mm(PF!JAddX(X1, Y1, Z1, X2, Y2, Z2), PF!JChX3d(X1, Y1, Z1, X2, Y2, Z2))
       = mm(PF!JChX3n(X1, Y1, Z1, X2, Y2, Z2), mm(nz, nz))
  /\ mm(PF!JAddY(X1, Y1, Z1, X2, Y2, Z2), PF!JChY3d(X1, Y1, Z1, X2, Y2, Z2))
       = mm(PF!JChY3n(X1, Y1, Z1, X2, Y2, Z2), mm(nz, mm(nz, nz)))
\* representation independence: scaling an operand scales every coordinate by the same power
RECURSIVE pw(_, _)
pw(l, n) == IF n = 0 THEN 1 ELSE mm(l, pw(l, n - 1))
DblHomOK(X, Y, Z, l) ==
  LET a == mm(l, X) b == mm(l, Y) c == mm(l, Z) IN
  /\ PF!DblX(a, b, c) = mm(pw(l, 6), PF!DblX(X, Y, Z))
  /\ PF!DblY(a, b, c) = mm(pw(l, 6), PF!DblY(X, Y, Z))
  /\ PF!DblZ(a, b, c) = mm(pw(l, 6), PF!DblZ(X, Y, Z))
AddHomOK(X1, Y1, Z1, X2, Y2, Z2, l) ==
  LET a == mm(l, X1) b == mm(l, Y1) c == mm(l, Z1) d == mm(l, X2) e == mm(l, Y2) f == mm(l, Z2) IN
  /\ PF!AddX(a, b, c, X2, Y2, Z2) = mm(pw(l, 4), PF!AddX(X1, Y1, Z1, X2, Y2, Z2))
  /\ PF!AddY(a, b, c, X2, Y2, Z2) = mm(pw(l, 4), PF!AddY(X1, Y1, Z1, X2, Y2, Z2))
  /\ PF!AddZ(a, b, c, X2, Y2, Z2) = mm(pw(l, 4), PF!AddZ(X1, Y1, Z1, X2, Y2, Z2))
  /\ PF!AddX(X1, Y1, Z1, d, e, f) = mm(pw(l, 4), PF!AddX(X1, Y1, Z1, X2, Y2, Z2))
  /\ PF!AddY(X1, Y1, Z1, d, e, f) = mm(pw(l, 4), PF!AddY(X1, Y1, Z1, X2, Y2, Z2))
  /\ PF!AddZ(X1, Y1, Z1, d, e, f) = mm(pw(l, 4), PF!AddZ(X1, Y1, Z1, X2, Y2, Z2))

\* ---- grids; the work is spread over states (name, first two coordinates)
VARIABLE st
Init == st = <<"root">>
Next ==
  \/ st[1] = "root" /\ \/ \E x \in 0..8, y \in 0..8 : st' = <<"dbl", x, y>>
                       \/ \E x \in 0..8, y \in 0..8 : st' = <<"jdbl", x, y>>
                       \/ \E x1 \in 0..7, z1 \in 0..10 : st' = <<"add", x1, z1>>
                       \/ \E x1 \in 0..7, z1 \in 0..24 : st' = <<"jadd", x1, z1>>
                       \/ \E x \in 0..7, l \in 0..7 : st' = <<"dblhom", x, l>>
                       \/ \E x1 \in 0..6, l \in 0..5 : st' = <<"addhom", x1, l>>
  \/ st[1] = "dbl" /\ st' = <<"done", \A z \in 0..8 : DblOK(st[2], st[3], z)>>
  \/ st[1] = "jdbl" /\ st' = <<"done", \A z \in 0..9 : JDblOK(st[2], st[3], z)>>
  \/ st[1] = "add" /\ st' = <<"done", \A y1 \in 0..4, x2 \in 0..7, y2 \in 0..4, z2 \in 0..10 :
                                        AddOK(st[2], y1, st[3], x2, y2, z2)>>
  \/ st[1] = "jadd" /\ st' = <<"done", \A y1 \in 0..4, x2 \in 0..7, y2 \in 0..4, z2 \in 0..21 :
                                         JAddOK(st[2], y1, st[3], x2, y2, z2)>>
  \/ st[1] = "dblhom" /\ st' = <<"done", \A y \in 0..7, z \in 0..7 : DblHomOK(st[2], y, z, st[3])>>
  \/ st[1] = "addhom" /\ st' = <<"done", \A y1 \in 0..3, z1 \in 0..5, x2 \in 0..5, y2 \in 0..3, z2 \in 0..5 :
                                           AddHomOK(st[2], y1, z1, x2, y2, z2, st[3])>>
Spec == Init /\ [][Next]_st
IdentitiesHold == st[1] = "done" => st[2]
=============================================================================
