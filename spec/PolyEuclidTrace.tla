-------------------------- MODULE PolyEuclidTrace --------------------------
(***************************************************************************)
(* (C) Validation of loop states recorded from the real FQP.inv of both    *)
(* field families (one line per evaluation of `while deg(low)`, taken with *)
(* sys.settrace: locals lm, hm, low, high and the quotient r that led to   *)
(* the state, all projected to residues in 0..p-1) against PolyEuclid.tla. *)
(*  row: [f, fam, x, states |-> <<[lm, hm, low, high, r]>>, res, exc]      *)
(*                                                                         *)
(* RowsOK  - property-relevant: the recorded run starts in the Start       *)
(*   state, every transition is an extended-Euclid step for the RECORDED   *)
(*   quotient (any quotient is a legal step), the loop invariant holds in  *)
(*   every state, the loop is left exactly when deg(low) = 0, the returned *)
(*   value is lm / low[0] and it is the inverse of x.                      *)
(* ModelOK - conformance of the code with the modelled division: every     *)
(*   recorded quotient equals DivCode(high, low).  While it holds, the     *)
(*   exhaustive results of MC_PolyEuclid (termination, no truncation) are  *)
(*   results about the code's algorithm.  It is reported, not a violation: *)
(*   a different (correct) division is not a defect.                       *)
(***************************************************************************)
EXTENDS PolyEuclid, Json, IOUtils

Rows   == ndJsonDeserialize(IOEnv.TABLE)
Fields == ndJsonDeserialize(IOEnv.FIELDS)
Stride == 64
VARIABLE i

IsPoly(F, a) == DOMAIN a = PIdx(F) /\ \A k \in PIdx(F) : a[k] \in Coef(F)

RowOK(row) ==
  LET F == Fields[row.f]
      s == row.states
      k == Len(s)
      x == row.x
  IN /\ k >= 1
     /\ \A j \in 1..k : IsPoly(F, s[j].lm) /\ IsPoly(F, s[j].hm) /\ IsPoly(F, s[j].low)
                        /\ IsPoly(F, s[j].high) /\ IsPoly(F, s[j].r)
     /\ s[1].lm = POne(F) /\ s[1].hm = PZero(F)                                        \* Start
     /\ s[1].low = Lift(F, x) /\ s[1].high = ModPoly(F)
     /\ \A j \in 1..(k - 1) :                                                           \* Step, while deg(low)
          /\ Deg(s[j].low) > 0
          /\ AbstractStep(F, s[j + 1].r, s[j].lm, s[j].hm, s[j].low, s[j].high,
                          s[j + 1].lm, s[j + 1].hm, s[j + 1].low, s[j + 1].high)
     /\ Deg(s[k].low) = 0                                                               \* Exit
     /\ \A j \in 1..k : Congruent(F, s[j].lm, x, s[j].low)                              \* loop invariant
                        /\ Congruent(F, s[j].hm, x, s[j].high)
     /\ IsElem(F, row.res)
     /\ row.res = ResultOf(F, s[k].lm, s[k].low)
     /\ IF x = Zero(F) THEN row.res = Zero(F) ELSE Mul(F, row.res, x) = One(F)

RowModelOK(row) ==
  LET F == Fields[row.f] s == row.states IN
  \A j \in 1..(Len(s) - 1) :
     /\ s[j + 1].r = DivCode(F, s[j].high, s[j].low)
     /\ Measure(s[j + 1].low, s[j + 1].high) < Measure(s[j].low, s[j].high)

TInit == i = 0
TNext == \/ i = 0 /\ i' \in 1..(IF Stride < Len(Rows) THEN Stride ELSE Len(Rows))
         \/ i > 0 /\ i + Stride <= Len(Rows) /\ i' = i + Stride
TSpec == TInit /\ [][TNext]_i
RowsOK  == i > 0 => (Rows[i].exc = "" /\ RowOK(Rows[i]))
ModelOK == i > 0 => (Rows[i].exc = "" => RowModelOK(Rows[i]))
=============================================================================
