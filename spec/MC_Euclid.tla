----------------------------- MODULE MC_Euclid -----------------------------
EXTENDS Euclid, IOUtils
NMAX == atoi(IOEnv.NMAX)
Init == /\ pc = "start" /\ A = 0 /\ N = 2 /\ lm = 0 /\ hm = 0 /\ low = 0 /\ high = 0 /\ res = 0
Next == \/ \E n0 \in 2..NMAX : \E a0 \in (0 - 2 * n0)..(3 * n0) : Start(a0, n0)
        \/ Step \/ Exit
Spec == Init /\ [][Next]_vars /\ WF_vars(Step) /\ WF_vars(Exit)
Terminates == (pc = "loop") ~> (pc = "done")
=============================================================================
