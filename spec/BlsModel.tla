------------------------------ MODULE BlsModel ------------------------------
(***************************************************************************)
(* The IETF BLS signature scheme (draft-irtf-cfrg-bls-signature-04, three  *)
(* ciphersuites) "in the exponent", with FORMAL keys (C01, C02, C03, C04). *)
(*                                                                         *)
(*  - A secret key is an integer linear form over independent key symbols  *)
(*    (k1, k2, k3 are generic 255-bit keys, "one" is the scalar 1), so     *)
(*    -k1, k1 + k2, k1 + 1 are expressible and no coincidence of toy       *)
(*    numbers can leak into a prediction.  pk = sk * g1.                   *)
(*  - G2 is the FREE module over the hash points: a basis element is       *)
(*    H(tag, bytes) for a domain-separation tag and an abstract byte       *)
(*    string <<pk part, message part>> (the message-augmentation suite     *)
(*    and PopProve prepend / sign the public key).  A G2 element is a      *)
(*    finite map  <<basis, key symbol>> |-> coefficient.                   *)
(*  - e(sigma, g1) = prod e(H_i, pk_i)  holds iff  sigma = sum pk_i * H_i  *)
(*    as formal objects (non-degeneracy and independence of hash outputs). *)
(*                                                                         *)
(* Verification entry points are specified on INPUT CLASSES as well: a     *)
(* presented key / signature is either a canonical encoding of a valid     *)
(* point (with its abstract value) or belongs to a malformed class; every  *)
(* malformed class makes every entry point return FALSE, never raise.      *)
(*                                                                         *)
(* TLC (A) checks the scheme's theorems over all scenarios of the bounded  *)
(* model, and (B) prints each scenario with the predicted result; the      *)
(* harness concretises scenarios into real keys, messages and byte strings *)
(* and runs the real library.                                              *)
(***************************************************************************)
EXTENDS Integers, Sequences, FiniteSets, SequencesExt, TLC, Json, IOUtils

KeySyms == {"k1", "k2", "k3", "one"}
Form(c1, c2, c3, c0) == [k \in KeySyms |-> CASE k = "k1" -> c1 [] k = "k2" -> c2 [] k = "k3" -> c3 [] k = "one" -> c0]
ZeroForm == Form(0, 0, 0, 0)
\* the secret keys used by scenarios, by name
KeyOf(n) == CASE n = "K1" -> Form(1, 0, 0, 0) [] n = "K2" -> Form(0, 1, 0, 0) [] n = "K3" -> Form(0, 0, 1, 0)
              [] n = "N1" -> Form(0 - 1, 0, 0, 0)          \* r - k1
              [] n = "S12" -> Form(1, 1, 0, 0)             \* k1 + k2 mod r
              [] n = "P1" -> Form(1, 0, 0, 1)              \* k1 + 1
              [] n = "M1" -> Form(1, 0, 0, 0 - 1)          \* k1 - 1
              [] n = "ONE" -> Form(0, 0, 0, 1)             \* the scalar 1
FAdd(f, g) == [k \in KeySyms |-> f[k] + g[k]]
FScale(c, f) == [k \in KeySyms |-> c * f[k]]

Suites == {"basic", "aug", "pop"}
\* domain separation tags: one DST per suite plus the proof-of-possession tag
Dst(s) == CASE s = "basic" -> "DST_NUL" [] s = "aug" -> "DST_AUG" [] s = "pop" -> "DST_POP"
PopTag == "POP_TAG"

\* abstract byte strings handed to hash_to_curve: sequences of parts, a part being the 48 bytes of a public
\* key (named by its key) or an opaque message (m1, m2, m3); equal sequences <=> equal bytes
NoPk == "nopk"
NoMsg == "nomsg"
MsgParts(m) == CASE m = NoMsg -> <<>>
                 [] m = "K1m1" -> <<"K1", "m1">>          \* a message that starts with K1's public key
                 [] m = "K1" -> <<"K1">>                  \* the message is K1's public key itself
                 [] OTHER -> <<m>>
\* what a suite hashes for (pk, m):  aug prepends the public key
HashInput(s, pkname, m) == IF s = "aug" THEN <<pkname>> \o MsgParts(m) ELSE MsgParts(m)
Basis(tag, bytes) == <<tag, bytes>>

(***************************************************************************)
(* G2 elements: sets of <<atom, coefficient>> with non-zero coefficients;  *)
(* an atom is <<basis, key symbol>> (tag "RND": an unrelated point).       *)
(***************************************************************************)
GZero == {}
Atoms(x) == {t[1] : t \in x}
Coef(x, a) == IF a \in Atoms(x) THEN (CHOOSE t \in x : t[1] = a)[2] ELSE 0
GAdd(x, y) == {<<a, Coef(x, a) + Coef(y, a)>> : a \in {b \in Atoms(x) \cup Atoms(y) : Coef(x, b) + Coef(y, b) # 0}}
GScale(c, x) == IF c = 0 THEN {} ELSE {<<t[1], c * t[2]>> : t \in x}
\* form * H(basis)
Times(f, b) == {<<<<b, k>>, f[k]>> : k \in {j \in KeySyms : f[j] # 0}}
RECURSIVE GSum(_)
GSum(s) == IF s = <<>> THEN GZero ELSE GAdd(Head(s), GSum(Tail(s)))

\* two key names denote the same key iff their forms are equal (so "K1" and "K1" only, here)
SameKey(a, b) == KeyOf(a) = KeyOf(b)

(***************************************************************************)
(* Honest operations                                                       *)
(***************************************************************************)
\* Sign_s(sk, m) = sk * H(DST_s, input);  PopProve(sk) = sk * H(POP_TAG, pk)
SignVal(s, kn, m) == Times(KeyOf(kn), Basis(Dst(s), HashInput(s, kn, m)))
PopVal(kn) == Times(KeyOf(kn), Basis(PopTag, <<kn>>))

\* a term of a signature description (see the scenario generator): its abstract value
TermVal(t) ==
  CASE t.kind = "sign" -> GScale(t.coef, SignVal(t.suite, t.key, t.msg))
    [] t.kind = "pop"  -> GScale(t.coef, PopVal(t.key))
    [] t.kind = "rnd"  -> {<<<<Basis("RND", <<"rnd">>), "one">>, 1>>}     \* a point unrelated to every hash point
    [] t.kind = "zero" -> GZero
SigVal(desc) == GSum([j \in 1..Len(desc) |-> TermVal(desc[j])])

(***************************************************************************)
(* Presented inputs.  A key is [cls, key]; a signature is [cls, desc].     *)
(* cls = "valid" means: canonical encoding of a point of the prime-order   *)
(* subgroup (for keys: possibly the identity, which KeyValidate rejects).  *)
(***************************************************************************)
BadKeyClasses == {"short", "long_prefix", "long_suffix", "cflag0", "inf_badflags", "x_ge_p", "offcurve",
                  "identity", "nonsubgroup", "nonsubgroup_plus", "nonsubgroup_minus", "wide_view"}
\* nonsubgroup_plus / _minus: sk G1 + T and sk G1 - T for one cofactor-torsion point T (their sum is in the subgroup)
BadSigClasses == {"short", "long_prefix", "long_suffix", "cflag0", "inf_badflags", "x_ge_p", "offcurve",
                  "nonsubgroup", "z2_flagbits", "z2_ge_p", "bitflip", "wide_view"}
\* wide_view: a buffer of twice the length (zero bytes, then the valid encoding) presented as a memoryview of
\* 16-bit items, so that len() is 48 / 96: not the canonical byte string, whatever the type gate thinks

KeyOK(pk) == pk.cls = "valid" /\ KeyOf(pk.key) # ZeroForm          \* KeyValidate
SigOK(sg) == sg.cls = "valid"                                       \* decodes, in the subgroup (identity allowed)

\* CoreVerify(PK, input, signature, tag)
CoreVerify(pk, tag, bytes, sg) ==
  /\ KeyOK(pk) /\ SigOK(sg)
  /\ SigVal(sg.desc) = Times(KeyOf(pk.key), Basis(tag, bytes))

Verify(s, pk, m, sg) == CoreVerify(pk, Dst(s), HashInput(s, IF pk.cls = "valid" THEN pk.key ELSE NoPk, m), sg)
PopVerify(pk, sg) == CoreVerify(pk, PopTag, <<IF pk.cls = "valid" THEN pk.key ELSE NoPk>>, sg)

Distinct(ms) == \A a, b \in 1..Len(ms) : a # b => ms[a] # ms[b]
CoreAggregateVerify(s, pks, ms, sg) ==
  /\ Len(pks) = Len(ms) /\ Len(pks) >= 1
  /\ \A j \in 1..Len(pks) : KeyOK(pks[j])
  /\ SigOK(sg)
  /\ SigVal(sg.desc) = GSum([j \in 1..Len(pks) |->
                               Times(KeyOf(pks[j].key), Basis(Dst(s), HashInput(s, pks[j].key, ms[j])))])
AggregateVerify(s, pks, ms, sg) ==
  /\ (s = "basic" => Distinct(ms))
  /\ CoreAggregateVerify(s, pks, ms, sg)

\* FastAggregateVerify (pop suite): Verify under the aggregated key; the IETF procedure hands the
\* aggregate to KeyValidate, so an aggregate equal to the identity is refused
FastAggregateVerify(pks, m, sg) ==
  /\ Len(pks) >= 1 /\ \A j \in 1..Len(pks) : KeyOK(pks[j])
  /\ SigOK(sg)
  /\ LET agg == GSum([j \in 1..Len(pks) |-> Times(KeyOf(pks[j].key), "g1")])     \* aggregated key (formal)
         f   == [k \in KeySyms |-> Coef(agg, <<"g1", k>>)]
     IN /\ f # ZeroForm
        /\ SigVal(sg.desc) = Times(f, Basis(Dst("pop"), MsgParts(m)))

(***************************************************************************)
(* Scenarios.  A scenario fixes the entry point, the suite, the presented  *)
(* keys / messages and the description of the presented signature.         *)
(***************************************************************************)
Msgs == {"m1", "m2", "m3"}
GenericKeys == {"K1", "K2", "K3"}
ValidKey(k) == [cls |-> "valid", key |-> k]
BadKey(c) == [cls |-> c, key |-> "K1"]        \* a malformed key derived from K1's encoding where applicable
BadKeyOf(c, k) == [cls |-> c, key |-> k]
SignT(s, k, m) == [kind |-> "sign", coef |-> 1, suite |-> s, key |-> k, msg |-> m, j |-> 0]
PopT(k) == [kind |-> "pop", coef |-> 1, suite |-> "pop", key |-> k, msg |-> NoMsg, j |-> 0]
CoefT(c, t) == [t EXCEPT !.coef = c]
RndT(j) == [kind |-> "rnd", coef |-> 1, suite |-> "basic", key |-> "K1", msg |-> NoMsg, j |-> j]
ZeroT == [kind |-> "zero", coef |-> 1, suite |-> "basic", key |-> "K1", msg |-> NoMsg, j |-> 0]
ValidSig(desc) == [cls |-> "valid", desc |-> desc]
BadSig(c, desc) == [cls |-> c, desc |-> desc]

Sc(entry, s, pks, ms, sg, note) == [entry |-> entry, suite |-> s, pks |-> pks, msgs |-> ms, sig |-> sg, note |-> note]

Predict(sc) ==
  CASE sc.entry = "Verify" -> Verify(sc.suite, sc.pks[1], sc.msgs[1], sc.sig)
    [] sc.entry = "PopVerify" -> PopVerify(sc.pks[1], sc.sig)
    [] sc.entry = "AggregateVerify" -> AggregateVerify(sc.suite, sc.pks, sc.msgs, sc.sig)
    [] sc.entry = "FastAggregateVerify" -> FastAggregateVerify(sc.pks, sc.msgs[1], sc.sig)
    [] sc.entry = "KeyValidate" -> KeyOK(sc.pks[1])

\* ---- single-signer scenarios (C01, C02): one key, one message, many candidate signatures
OtherSuites(s) == Suites \ {s}
Candidates(s, k, m) ==
  {<<"canonical", ValidSig(<<SignT(s, k, m)>>)>>,
   <<"other_key", ValidSig(<<SignT(s, "K2", m)>>)>>,
   <<"other_msg", ValidSig(<<SignT(s, k, "m2")>>)>>,
   <<"plus_signature_of_one", ValidSig(<<SignT(s, k, m), SignT(s, "ONE", m)>>)>>,     \* (sk+1) H(m) in basic / pop
   <<"negated", ValidSig(<<CoefT(0 - 1, SignT(s, k, m))>>)>>,
   <<"doubled", ValidSig(<<CoefT(2, SignT(s, k, m))>>)>>,
   <<"identity", ValidSig(<<ZeroT>>)>>,
   <<"random_point", ValidSig(<<RndT(1)>>)>>,
   <<"plus_random", ValidSig(<<SignT(s, k, m), RndT(1)>>)>>,
   <<"pop_proof_as_signature", ValidSig(<<PopT(k)>>)>>}
  \cup {<<"other_suite", ValidSig(<<SignT(o, k, m)>>)>> : o \in OtherSuites(s)}
  \cup {<<"malformed", BadSig(c, <<SignT(s, k, m)>>)>> : c \in BadSigClasses}

SingleScenarios ==
  {Sc("Verify", s, <<ValidKey("K1")>>, <<"m1">>, c[2], c[1]) : s \in Suites, c \in UNION {Candidates(t, "K1", "m1") : t \in Suites}}
  \cup {Sc("Verify", s, <<BadKey(c)>>, <<"m1">>, ValidSig(<<SignT(s, "K1", "m1")>>), "bad_key") : s \in Suites, c \in BadKeyClasses}
  \* messages that contain the signer's public key: augmentation and tag separation must still tell them apart
  \cup {Sc("Verify", s, <<ValidKey("K1")>>, <<m>>, ValidSig(<<t>>), "pk_in_message") :
          s \in Suites, m \in {"m1", "K1m1", "K1"},
          t \in {SignT(u, "K1", n) : u \in Suites, n \in {"m1", "K1m1", "K1"}} \cup {PopT("K1")}}
  \cup {Sc("PopVerify", "pop", <<ValidKey("K1")>>, <<>>, ValidSig(<<SignT(u, "K1", "K1")>>), "signature_on_pk_as_proof") : u \in Suites}
  \cup {Sc("PopVerify", "pop", <<ValidKey("K1")>>, <<>>, ValidSig(d[2]), d[1]) :
          d \in {<<"canonical", <<PopT("K1")>>>>, <<"other_key", <<PopT("K2")>>>>,
                 <<"signature_as_proof", <<SignT("pop", "K1", "m1")>>>>, <<"negated", <<CoefT(0 - 1, PopT("K1"))>>>>,
                 <<"identity", <<ZeroT>>>>}}
  \cup {Sc("PopVerify", "pop", <<BadKey(c)>>, <<>>, ValidSig(<<PopT("K1")>>), "bad_key") : c \in BadKeyClasses}
  \cup {Sc("PopVerify", "pop", <<ValidKey("K1")>>, <<>>, BadSig(c, <<PopT("K1")>>), "malformed") : c \in BadSigClasses}
  \cup {Sc("KeyValidate", "basic", <<ValidKey("K1")>>, <<>>, ValidSig(<<ZeroT>>), "valid_key")}
  \cup {Sc("KeyValidate", "basic", <<BadKey(c)>>, <<>>, ValidSig(<<ZeroT>>), "bad_key") : c \in BadKeyClasses}

\* ---- aggregate scenarios (C03, C04): n signers, honest aggregate, one perturbation
Signers(n) == IF n = 1 THEN [1..n -> {"K1", "K2", "N1", "S12"} \X {"m1", "m2"}]
              ELSE [1..n -> {"K1", "K2", "N1", "S12"} \X {"m1", "m2"}]
HonestDesc(s, sg) == [j \in 1..Len(sg) |-> SignT(s, sg[j][1], sg[j][2])]
Keys(sg) == [j \in 1..Len(sg) |-> ValidKey(sg[j][1])]
MsgsOf(sg) == [j \in 1..Len(sg) |-> sg[j][2]]
\* RemoveAt / ReplaceAt are those of SequencesExt

Perturbations(s, sg) ==
  LET n == Len(sg) pks == Keys(sg) ms == MsgsOf(sg) d == HonestDesc(s, sg) IN
  {<<"honest", pks, ms, ValidSig(d)>>,
   <<"reversed_sig_order", pks, ms, ValidSig(Reverse(d))>>,
   <<"identity_sig", pks, ms, ValidSig(<<ZeroT>>)>>,
   <<"negated_aggregate", pks, ms, ValidSig([j \in 1..n |-> CoefT(0 - 1, d[j])])>>,
   <<"aggregate_plus_random", pks, ms, ValidSig(Append(d, RndT(1)))>>,
   <<"empty_lists", <<>>, <<>>, ValidSig(d)>>}
  \cup {<<"drop_signature", pks, ms, ValidSig(RemoveAt(d, j))>> : j \in {k \in 1..n : n >= 2}}
  \cup {<<"duplicate_signature", pks, ms, ValidSig(Append(d, d[j]))>> : j \in 1..n}
  \cup {<<"signature_by_other_key", pks, ms, ValidSig(ReplaceAt(d, j, SignT(s, k, sg[j][2])))>> :
          j \in 1..n, k \in {"K1", "K2", "K3"}}
  \cup {<<"signature_on_other_msg", pks, ms, ValidSig(ReplaceAt(d, j, SignT(s, sg[j][1], m)))>> :
          j \in 1..n, m \in {"m1", "m2"}}
  \cup {<<"drop_pair", RemoveAt(pks, j), RemoveAt(ms, j), ValidSig(d)>> : j \in 1..n}
  \cup {<<"duplicate_pair", Append(pks, pks[j]), Append(ms, ms[j]), ValidSig(d)>> : j \in 1..n}
  \cup {<<"substitute_key", ReplaceAt(pks, j, ValidKey(k)), ms, ValidSig(d)>> : j \in 1..n, k \in {"K1", "K2", "K3"}}
  \cup {<<"substitute_msg", pks, ReplaceAt(ms, j, m), ValidSig(d)>> : j \in 1..n, m \in {"m1", "m2", "m3"}}
  \cup {<<"drop_key_only", RemoveAt(pks, j), ms, ValidSig(d)>> : j \in 1..n}
  \cup {<<"drop_msg_only", pks, RemoveAt(ms, j), ValidSig(d)>> : j \in 1..n}
  \cup {<<"bad_key_" \o c, ReplaceAt(pks, j, BadKey(c)), ms, ValidSig(d)>> : j \in 1..n, c \in BadKeyClasses}
  \cup {<<"bad_sig_" \o c, pks, ms, BadSig(c, d)>> : c \in BadSigClasses}
  \* malformed encodings of the IDENTITY signature (which is the honest aggregate when the keys cancel)
  \cup {<<"bad_identity_sig_" \o c, pks, ms, BadSig(c, <<ZeroT>>)>> : c \in BadSigClasses \ {"bitflip"}}
  \cup {<<"extra_msg", pks, Append(ms, m), ValidSig(d)>> : m \in {"m1", "m3"}}
  \cup {<<"extra_key", Append(pks, ValidKey(k)), ms, ValidSig(d)>> : k \in {"K1", "K3"}}
  \* two keys outside the subgroup whose cofactor parts cancel, with the signature of the summed secret key
  \cup {<<"bad_keys_cancelling", <<BadKeyOf("nonsubgroup_plus", "K1"), BadKeyOf("nonsubgroup_minus", "K2")>>,
           <<"m1", "m1">>, ValidSig(<<SignT(s, "S12", "m1")>>)>>}

\* FastAggregateVerify: one shared message
FastSigners(n) == [1..n -> {"K1", "K2", "N1", "S12"} \X {"m1"}]
MaxN == atoi(IOEnv.MAXN)

\* The scenario space is explored as a tree so that TLC's workers share it:
\*   root -> one state per (kind, suite, signer tuple) -> one state per scenario
VARIABLE st
sc == st[2]                       \* meaningful in states <<"sc", scenario>>
IsSc == st[1] = "sc"
Init == st = <<"root">>
Next ==
  \/ st[1] = "root" /\ \/ \E x \in SingleScenarios : st' = <<"sc", x>>
                       \/ \E n \in 1..MaxN : \E s \in Suites, sg \in Signers(n) : st' = <<"agg", s, sg>>
                       \/ \E n \in 1..MaxN : \E sg \in FastSigners(n) : st' = <<"fast", sg>>
  \/ st[1] = "agg" /\ \E p \in Perturbations(st[2], st[3]) :
                         st' = <<"sc", Sc("AggregateVerify", st[2], p[2], p[3], p[4], p[1])>>
  \/ st[1] = "fast" /\ \E p \in {q \in Perturbations("pop", st[2]) : q[1] \notin {"substitute_msg", "drop_msg_only"}} :
                         st' = <<"sc", Sc("FastAggregateVerify", "pop", p[2], <<"m1">>, p[4], p[1])>>
Spec == Init /\ [][Next]_st

(***************************************************************************)
(* Theorems of the scheme, checked on every scenario (A)                   *)
(***************************************************************************)
\* C01: honest signatures and possession proofs verify
HonestVerifies == IsSc => (
  (sc.note = "canonical" /\ sc.entry \in {"Verify", "PopVerify"} /\ sc.sig.cls = "valid") =>
     (Predict(sc) <=> (sc.entry = "PopVerify" \/ sc.sig.desc[1].suite = sc.suite)))
\* C02: for a valid key, Verify accepts exactly the canonical signature
OnlyCanonical == IsSc => (
  (sc.entry = "Verify" /\ sc.pks[1].cls = "valid") =>
     (Predict(sc) <=> (sc.sig.cls = "valid" /\ SigVal(sc.sig.desc) = SignVal(sc.suite, sc.pks[1].key, sc.msgs[1]))))
\* C04: any malformed key or signature makes every entry point return FALSE
MalformedRejected == IsSc => (
  ((\E j \in 1..Len(sc.pks) : sc.pks[j].cls # "valid") \/ sc.sig.cls # "valid") =>
     (sc.entry = "KeyValidate" /\ sc.pks[1].cls = "valid") \/ ~Predict(sc))
\* C03: with generic independent keys the honest aggregate verifies (when the suite's preconditions hold) and
\* every effective single perturbation is rejected
GenericKeysOnly == \A j \in 1..Len(sc.pks) : sc.pks[j].cls = "valid" => sc.pks[j].key \in GenericKeys
DescGeneric == \A j \in 1..Len(sc.sig.desc) : sc.sig.desc[j].kind # "sign" \/ sc.sig.desc[j].key \in GenericKeys
AggregateTheorem == IsSc => (
  (sc.entry = "AggregateVerify" /\ GenericKeysOnly /\ DescGeneric) =>
     /\ (sc.note \in {"honest", "reversed_sig_order"} =>
           (Predict(sc) <=> (sc.suite = "basic" => Distinct(sc.msgs))))
     /\ (sc.note \in {"drop_signature", "duplicate_signature", "drop_pair", "duplicate_pair", "drop_key_only",
                      "drop_msg_only", "empty_lists", "negated_aggregate", "aggregate_plus_random",
                      "extra_msg", "extra_key"} => ~Predict(sc)))

\* (B) every scenario with its predicted result, one JSON line each
\* `core`: what the result would be if every presented encoding were the canonical one of its underlying value
\* (used by the harness to prefer scenarios in which the encoding alone decides)
Canon(x) == [x EXCEPT !.sig = [cls |-> "valid", desc |-> x.sig.desc],
                      !.pks = [j \in 1..Len(x.pks) |-> [cls |-> "valid", key |-> x.pks[j].key]]]
Dump == IsSc => PrintT(ToJson([sc |-> sc, expect |-> Predict(sc), core |-> Predict(Canon(sc))]))

(***************************************************************************)
(* Secret-key classes (C01): SkToPk / Sign / PopProve accept exactly the   *)
(* integers in [1, r-1]                                                    *)
(***************************************************************************)
ValidSkClasses == {"1", "2", "mid", "bits", "r-2", "r-1", "bandpk", "bandsig", "intsub"}
InvalidSkClasses == {"0", "r", "r+1", "-1", "2^255", "2r", "nonint"}
SkAccepted(c) == c \in ValidSkClasses
=============================================================================
