------------------------------ MODULE EcdsaBig ------------------------------
(***************************************************************************)
(* Full-size conformance of ecdsa_raw_sign / ecdsa_raw_recover / privtopub *)
(* of the REAL secp256k1 module (C06), over BigNat.  The group is tracked  *)
(* in the exponent (R = k G, Q = d G), so the verification equation        *)
(*   x((z / s) G + (r / s) Q) = r                                          *)
(* is the congruence  s k = +-(z + r d)  (mod N)  together with r = x(kG). *)
(* Row: [h |-> hash bytes, dkey |-> key bytes, k, rx, ry |-> multiply(G,k) *)
(*       as recorded, v, r, s, rec, oth, pub |-> point ids (recover with   *)
(*       v, with the other v, privtopub), calls |-> the HMAC calls]        *)
(* N, P come from StdConstants.tla.                                        *)
(***************************************************************************)
EXTENDS StdConstants, Json, IOUtils

Rows   == ndJsonDeserialize(IOEnv.TABLE)
Stride == 4
VARIABLE i

NN == SecpN
Par(a) == IF a = <<>> THEN 0 ELSE a[1] % 2

RowOK(r) ==
  LET z  == FromBytes(r.h)
      d  == FromBytes(r.dkey)
      k  == FromBytes(r.calls[5].out)              \* the RFC 6979 nonce (call structure: Rfc6979Trace.tla)
      km == Mod(k, NN)
      zr == AddMod(Mod(z, NN), MulMod(Mod(r.r, NN), Mod(d, NN), NN), NN)      \* z + r d  mod N
      regular == km # Zero /\ Less(r.rx, NN) /\ r.rx # Zero /\ zr # Zero
      sk == MulMod(r.s, km, NN)
      flipped == sk # zr
  IN /\ r.k = k
     /\ regular =>
          /\ r.r = r.rx                                         \* r = x(k G)
          /\ Less(Zero, r.s) /\ Leq(Double(r.s), NN)            \* 1 <= s <= N/2
          /\ (sk = zr \/ sk = NegMod(zr, NN))                   \* s k = +-(z + r d)
          /\ r.v = 27 + (IF flipped THEN 1 - Par(r.ry) ELSE Par(r.ry))
          /\ r.rec = r.pub /\ r.oth # r.pub                     \* recovery returns d G; the other v does not

Init == i = 0
Next == \/ i = 0 /\ i' \in 1..(IF Stride < Len(Rows) THEN Stride ELSE Len(Rows))
        \/ i > 0 /\ i + Stride <= Len(Rows) /\ i' = i + Stride
Spec == Init /\ [][Next]_i
RowsOK == i > 0 => (Rows[i].exc = "" /\ RowOK(Rows[i]))
=============================================================================
