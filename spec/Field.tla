------------------------------- MODULE Field -------------------------------
(***************************************************************************)
(* Finite fields GF(p) and GF(p)[w]/(m(w)) -- the MATHEMATICAL definition  *)
(* that py_ecc's FQ / FQP / FQ2 / FQ12 classes (reference and optimized)   *)
(* are specified against.                                                  *)
(*                                                                         *)
(* A field descriptor is a record  F = [p |-> prime, d |-> degree,         *)
(* mc |-> <<c_0 .. c_{d-1}>>]  meaning  w^d = -(c_0 + c_1 w + ...)  with   *)
(* the c_i already reduced into 0..p-1 (py_ecc's `modulus_coeffs`, reduced)*)
(* An element is a tuple of d coefficients in 0..p-1 (low degree first);   *)
(* the prime field is the case d = 1, mc = <<0>> (w = 0).                  *)
(* All operators are total on tuples of the right length.                  *)
(* TLC integers are 32-bit: p must be < 46341 so products fit.             *)
(***************************************************************************)
EXTENDS Integers, Sequences, SequencesExt, FiniteSets, TLC

Idx(lo, hi) == [k \in 1..(hi - lo + 1) |-> lo + k - 1]

Coef(F) == 0..(F.p - 1)
Elem(F) == [1..F.d -> Coef(F)]

Zero(F) == [k \in 1..F.d |-> 0]
One(F)  == [k \in 1..F.d |-> IF k = 1 THEN 1 ELSE 0]
\* embedding of an integer (any sign, any size within 32 bits) as its residue
OfInt(F, n) == [k \in 1..F.d |-> IF k = 1 THEN n % F.p ELSE 0]

IsElem(F, a) == /\ DOMAIN a = 1..F.d
                /\ \A k \in 1..F.d : a[k] \in Coef(F)

Add(F, a, b) == [k \in 1..F.d |-> (a[k] + b[k]) % F.p]
Sub(F, a, b) == [k \in 1..F.d |-> (a[k] - b[k]) % F.p]
Neg(F, a)    == [k \in 1..F.d |-> (0 - a[k]) % F.p]
ScalarMul(F, a, n) == [k \in 1..F.d |-> (a[k] * (n % F.p)) % F.p]

\* polynomial product, coefficients reduced mod p, length 2d-1
Conv(F, a, b) ==
  [k \in 1..(2 * F.d - 1) |->
     FoldLeft(LAMBDA acc, i : (acc + a[i] * b[k + 1 - i]) % F.p, 0,
              Idx(IF k - F.d + 1 > 1 THEN k - F.d + 1 ELSE 1,
                  IF k < F.d THEN k ELSE F.d))]

\* remainder of a polynomial c (length >= d) modulo  w^d + sum mc[i] w^(i-1)
RECURSIVE PolyRem(_, _)
PolyRem(F, c) ==
  IF Len(c) <= F.d THEN c
  ELSE LET n   == Len(c)
           top == c[n]
           e   == n - F.d        \* top * w^(n-1) = top * w^(e-1) * w^d
       IN PolyRem(F, TLCEval([k \in 1..(n - 1) |->
                      IF k >= e /\ k < e + F.d
                      THEN (c[k] - top * F.mc[k - e + 1]) % F.p
                      ELSE c[k]]))

Mul(F, a, b) == IF F.d = 1 THEN <<(a[1] * b[1]) % F.p>>
                ELSE PolyRem(F, TLCEval(Conv(F, a, b)))
Sqr(F, a) == Mul(F, a, a)

(***************************************************************************)
(* x^n as the n-fold product (the meaning the property statement gives to  *)
(* `**`), and the binary form used for exponents beyond 32 bits: an        *)
(* exponent is then a tuple of bits, least significant first.  PowBits is  *)
(* DEFINED by  x^(2k+b) = (x^k)^2 * x^b ; MC_Field checks it equal to the  *)
(* n-fold product.                                                         *)
(***************************************************************************)
RECURSIVE PowNat(_, _, _)
PowNat(F, a, n) == IF n = 0 THEN One(F) ELSE Mul(F, PowNat(F, a, n - 1), a)

RECURSIVE Bits(_)
Bits(n) == IF n = 0 THEN <<>> ELSE <<n % 2>> \o Bits(n \div 2)

\* square-and-multiply from the most significant bit, as a fold (no deep recursion: exponents of thousands of
\* bits are used); the definition is  x^(2k+b) = (x^k)^2 * x^b
PowBits(F, a, bits) ==
  FoldLeft(LAMBDA acc, k : LET sq == Mul(F, acc, acc)
                            IN IF bits[Len(bits) + 1 - k] = 1 THEN Mul(F, sq, a) ELSE sq,
           One(F), Idx(1, Len(bits)))

Pow(F, a, n) == PowBits(F, a, Bits(n))

\* inverse: the unique b with a*b = 1 (0 for a = 0: py_ecc's inv0 convention)
IsInv(F, a, b) == IF a = Zero(F) THEN b = Zero(F) ELSE Mul(F, a, b) = One(F)
\* a / b = q  iff  q * b = a  (b # 0);  a / 0 = 0
IsQuot(F, a, b, q) == IF b = Zero(F) THEN q = Zero(F) ELSE Mul(F, q, b) = a
\* computed inverse for small fields only (search)
Inv(F, a) == IF a = Zero(F) THEN Zero(F)
             ELSE CHOOSE b \in Elem(F) : Mul(F, a, b) = One(F)
\* computed inverse in the prime field by Fermat (any p < 46341)
InvP(p, a) == IF a % p = 0 THEN 0   \* inv0 (also keeps p = 2 right, where p - 2 = 0)
              ELSE PowBits([p |-> p, d |-> 1, mc |-> <<0>>], <<a % p>>, Bits(p - 2))[1]
\* inverse in an extension through the norm-free route: a^(q-2) needs q = p^d,
\* which overflows for big fields; use IsInv with a witness there.

(***************************************************************************)
(* sgn0 of RFC 9380 section 4.1 for extension degree m = d                 *)
(***************************************************************************)
RECURSIVE Sgn0From(_, _, _, _)
Sgn0From(a, k, sign, zero) ==
  IF k > Len(a) THEN sign
  ELSE LET si == a[k] % 2
           zi == a[k] = 0
       IN Sgn0From(a, k + 1,
                   IF sign = 1 \/ (zero /\ si = 1) THEN 1 ELSE 0,
                   zero /\ zi)
Sgn0(F, a) == Sgn0From(a, 1, 0, TRUE)

(***************************************************************************)
(* Premises on a field descriptor.  Irreducibility by exhaustive search    *)
(* for a zero divisor is only for tiny fields; Rabin-style tests are in    *)
(* MC modules where needed.                                                *)
(***************************************************************************)
IsPrime(n) == n > 1 /\ \A k \in 2..(n - 1) : k * k > n \/ n % k # 0
WellFormed(F) == /\ IsPrime(F.p) /\ F.p < 46341
                 /\ F.d >= 1 /\ Len(F.mc) = F.d
                 /\ \A k \in 1..F.d : F.mc[k] \in Coef(F)
=============================================================================
