----------------------------- MODULE ZcashCodec -----------------------------
(***************************************************************************)
(* The ZCash BLS12-381 point serialization (C11): a compressed G1 point is *)
(* a 384-bit word  c * 2^383 + b * 2^382 + a * 2^381 + x  (c = compressed, *)
(* b = infinity, a = sign of y, x < 2^381); a compressed G2 point is a     *)
(* pair of such words carrying x_im (with the flags) and x_re (no flags).  *)
(* sign = 1 iff y is the lexicographically larger of {y, -y}: 2 y >= q     *)
(* for G1; for G2 decided on y_im, or on y_re when y_im = 0.               *)
(*                                                                         *)
(* Words are records [c, b, a, x] with x a small natural (the 384-bit      *)
(* layout is kept and only the field prime q shrinks in toy instances; at  *)
(* full size the same predicates are evaluated over BigNat).               *)
(* Decoding is specified RELATIONALLY (no square root is computed): the    *)
(* class of a word (refused / infinity / point) needs only a residuosity   *)
(* test, and the decoded point is the unique (x, y) on the curve with the  *)
(* requested sign.                                                         *)
(***************************************************************************)
EXTENDS Curve, Bytes

Wd(c, b, a, x) == [c |-> c, b |-> b, a |-> a, x |-> x]
NoFlags(w) == w.c = 0 /\ w.b = 0 /\ w.a = 0

Q(C) == C.F.p

\* sign of y, G1 (d = 1) and G2 (d = 2, coefficient 1 = real part, 2 = imaginary part)
Sign1(C, y) == (2 * y[1]) \div Q(C)
Sign2(C, y) == IF y[2] > 0 THEN (2 * y[2]) \div Q(C) ELSE (2 * y[1]) \div Q(C)

(***************************************************************************)
(* G1                                                                      *)
(***************************************************************************)
CompressG1(C, P) == IF P = INF THEN Wd(1, 1, 0, 0) ELSE Wd(1, 0, Sign1(C, P[2]), P[1][1])

\* class of a word: "err" (refused), "inf", or "pt"
ClassG1(C, w) ==
  IF w.c = 0 THEN "err"
  ELSE IF w.b = 1 THEN (IF w.a = 0 /\ w.x = 0 THEN "inf" ELSE "err")
  ELSE IF w.x >= Q(C) THEN "err"
  ELSE IF IsSquare(C.F, Rhs(C, <<w.x>>)) THEN "pt" ELSE "err"

\* P is what the word decodes to
DecodesG1(C, w, P) ==
  CASE ClassG1(C, w) = "inf" -> P = INF
    [] ClassG1(C, w) = "pt"  -> /\ P # INF /\ IsElem(C.F, P[1]) /\ IsElem(C.F, P[2])
                                /\ P[1] = <<w.x>> /\ OnCurve(C, P) /\ Sign1(C, P[2]) = w.a
    [] OTHER -> FALSE

(***************************************************************************)
(* G2: a pair <<w1, w2>>; x = w2.x + w1.x * i                              *)
(***************************************************************************)
CompressG2(C, P) ==
  IF P = INF THEN <<Wd(1, 1, 0, 0), Wd(0, 0, 0, 0)>>
  ELSE <<Wd(1, 0, Sign2(C, P[2]), P[1][2]), Wd(0, 0, 0, P[1][1])>>

ClassG2(C, w1, w2) ==
  IF w1.c = 0 THEN "err"
  ELSE IF w1.b = 1 THEN (IF w1.a = 0 /\ w1.x = 0 /\ NoFlags(w2) /\ w2.x = 0 THEN "inf" ELSE "err")
  ELSE IF w1.x >= Q(C) \/ ~NoFlags(w2) \/ w2.x >= Q(C) THEN "err"
  ELSE IF IsSquare(C.F, Rhs(C, <<w2.x, w1.x>>)) THEN "pt" ELSE "err"

DecodesG2(C, w1, w2, P) ==
  CASE ClassG2(C, w1, w2) = "inf" -> P = INF
    [] ClassG2(C, w1, w2) = "pt"  -> /\ P # INF /\ IsElem(C.F, P[1]) /\ IsElem(C.F, P[2])
                                     /\ P[1] = <<w2.x, w1.x>> /\ OnCurve(C, P)
                                     /\ Sign2(C, P[2]) = w1.a
    [] OTHER -> FALSE

(***************************************************************************)
(* Byte level: a word is 48 big-endian bytes; the first byte carries the   *)
(* three flags in its top bits.  For small x only the last bytes are       *)
(* non-zero; WordOfBytes reports "big" when the value part exceeds 24 bits *)
(* (then x >= q in every toy instance).                                    *)
(***************************************************************************)
BytesOfWord(w) == <<w.c * 128 + w.b * 64 + w.a * 32>> \o Rep(0, 44) \o I2OSPr(w.x, 3)
WordOfBytes(s) ==
  LET big == (s[1] % 32 # 0) \/ (\E k \in 2..45 : s[k] # 0)
  IN [c |-> s[1] \div 128, b |-> (s[1] \div 64) % 2, a |-> (s[1] \div 32) % 2,
      x |-> IF big THEN 2147483647 ELSE OS2IPs(Slice(s, 46, 48))]
=============================================================================
