----------------------------- MODULE HkdfTable -----------------------------
(***************************************************************************)
(* Code -> spec conformance for hkdf_extract, hkdf_expand and KeyGen (C16).*)
(* The real functions run in private module copies whose `hmac` (and, for  *)
(* KeyGen, the salt hash and the group order) are either toy functions TLC *)
(* can compute or recording wrappers around the real HMAC-SHA256/SHA-256.  *)
(*   ext [M, salt, ikm, r]                                                 *)
(*   exp [M, prk, info, L, r]                                              *)
(*   kg  [M, S, ikm, info, ord, r |-> secret key, again |-> same key on *)
(*        a repeated call (0/1), tries |-> salt hashes observed]           *)
(***************************************************************************)
EXTENDS Hkdf, Json, IOUtils

Rows   == ndJsonDeserialize(IOEnv.TABLE)
Stride == 16
VARIABLE i

RowOK(r) ==
  /\ (r.M.kind = "graph" => MacFunctional(r.M.g))
  /\ CASE r.op = "ext" -> r.r = Extract(r.M, r.salt, r.ikm) /\ Len(r.r) = HLen
       [] r.op = "exp" -> Len(r.r) = r.L /\ r.r = Expand(r.M, r.prk, r.info, r.L)
       [] r.op = "kg"  -> LET k == KeyGen(r.M, r.S, r.ikm, r.info, r.ord) IN
                          /\ k.ok /\ r.r = k.sk
                          /\ 1 <= r.r /\ r.r < r.ord
                          /\ r.again = 1
       [] OTHER -> FALSE

Init == i = 0
Next == \/ i = 0 /\ i' \in 1..(IF Stride < Len(Rows) THEN Stride ELSE Len(Rows))
        \/ i > 0 /\ i + Stride <= Len(Rows) /\ i' = i + Stride
Spec == Init /\ [][Next]_i
RowsOK == i > 0 => (Rows[i].exc = "" /\ RowOK(Rows[i]))
\* how often the retry path of KeyGen was exercised (non-vacuity), printed once
RetryCount == i = 0 =>
  PrintT(<<"keygen_rows_with_retry",
           Cardinality({k \in 1..Len(Rows) : Rows[k].op = "kg" /\ Rows[k].tries > 1})>>)
=============================================================================
