------------------------------- MODULE Euclid -------------------------------
(***************************************************************************)
(* The extended-Euclid inversion loop of py_ecc.utils.prime_field_inv and  *)
(* py_ecc.secp256k1.secp256k1.inv, as a step machine (one action per loop  *)
(* iteration), with its loop invariant and termination (C08 / C18 depth).  *)
(*                                                                         *)
(*   Start:  a := a mod n;  a = 0 -> result 0 (inv0);                      *)
(*           else (lm, hm, low, high) := (1, 0, a, n)                      *)
(*   Step:   low > 1:  r := high div low;                                  *)
(*           (lm, low, hm, high) := (hm - lm r, high - low r, lm, low)     *)
(*   Exit:   low <= 1: result lm mod n                                     *)
(*                                                                         *)
(* (A) MC: for every modulus N in 2..NMAX and every A in -2N..3N TLC       *)
(*     checks the invariant  lm A = low, hm A = high (mod N),  that low    *)
(*     strictly decreases (termination), and that the result is the        *)
(*     inverse whenever gcd(A, N) = 1, and 0 for A = 0 mod N.              *)
(* (C) EuclidTrace.tla validates the sequence of loop states RECORDED from *)
(*     the real functions (sys.settrace) against Step.                     *)
(***************************************************************************)
EXTENDS Integers, TLC

VARIABLES pc, A, N, lm, hm, low, high, res
vars == <<pc, A, N, lm, hm, low, high, res>>

Start(a0, n0) ==
  /\ pc = "start" /\ A' = a0 /\ N' = n0
  /\ IF a0 % n0 = 0
     THEN pc' = "done" /\ res' = 0 /\ UNCHANGED <<lm, hm, low, high>>
     ELSE pc' = "loop" /\ lm' = 1 /\ hm' = 0 /\ low' = a0 % n0 /\ high' = n0 /\ UNCHANGED res

StepRel(l1, h1, lo1, hi1, l2, h2, lo2, hi2) ==
  LET r == hi1 \div lo1 IN
  l2 = h1 - l1 * r /\ lo2 = hi1 - lo1 * r /\ h2 = l1 /\ hi2 = lo1

Step == /\ pc = "loop" /\ low > 1
        /\ StepRel(lm, hm, low, high, lm', hm', low', high')
        /\ UNCHANGED <<pc, A, N, res>>
Exit == /\ pc = "loop" /\ low <= 1
        /\ pc' = "done" /\ res' = lm % N
        /\ UNCHANGED <<A, N, lm, hm, low, high>>

LoopInv == pc = "loop" =>
  /\ (lm * A - low) % N = 0 /\ (hm * A - high) % N = 0
  /\ 0 <= low /\ low < high
Decreases == [][(pc = "loop" /\ pc' = "loop") => low' < low]_vars

RECURSIVE Gcd(_, _)
Gcd(x, y) == IF y = 0 THEN x ELSE Gcd(y, x % y)
ResultOK == pc = "done" =>
  /\ res \in 0..(N - 1)
  /\ (A % N = 0 => res = 0)
  /\ (Gcd(A % N, N) = 1 => (res * A) % N = 1 % N)
=============================================================================
