--------------------------- MODULE CurveIdentities ---------------------------
(***************************************************************************)
(* TLAPS theorems (C13): the transcribed formulas of ProjFormulas.tla are  *)
(* the affine chord-and-tangent law / line function, as polynomial         *)
(* identities over the integers in cross-multiplied form, and they are     *)
(* homogeneous in a scaling parameter.  An identity of integer polynomials *)
(* holds in every commutative ring, so in every field of any               *)
(* characteristic.  Checked with:  tlapm --cleanfp -I .. CurveIdentities.tla *)
(***************************************************************************)
EXTENDS ProjFormulas, TLAPS

\* doubling: (nx : ny : nz) represents (x3, y3) of the tangent law at (X/Z, Y/Z)
THEOREM DoubleIsTangentX ==
  \A X, Y, Z \in Int : DblX(X, Y, Z) * TanX3d(Y, Z) = DblZ(X, Y, Z) * TanX3n(X, Y, Z)
  BY Z3T(60) DEF DblX, DblZ, DblH, DblW, DblS, DblB, TanX3d, TanX3n, TanMn, TanMd
THEOREM DoubleIsTangentY ==
  \A X, Y, Z \in Int : DblY(X, Y, Z) * TanY3d(Y, Z) = DblZ(X, Y, Z) * TanY3n(X, Y, Z)
  BY Z3T(120) DEF DblY, DblZ, DblH, DblW, DblS, DblB, TanY3d, TanY3n, TanX3d, TanX3n, TanMn, TanMd

\* generic addition: (nx : ny : nz) represents the chord law at (X1/Z1, Y1/Z1), (X2/Z2, Y2/Z2)
THEOREM AddIsChordX ==
  \A X1, Y1, Z1, X2, Y2, Z2 \in Int :
     AddX(X1, Y1, Z1, X2, Y2, Z2) * ChX3d(X1, Y1, Z1, X2, Y2, Z2) = AddZ(X1, Y1, Z1, X2, Y2, Z2) * ChX3n(X1, Y1, Z1, X2, Y2, Z2)
  BY Z3T(120) DEF AddX, AddZ, AddA, AddU, AddV, ChX3d, ChX3n
THEOREM AddIsChordY ==
  \A X1, Y1, Z1, X2, Y2, Z2 \in Int :
     AddY(X1, Y1, Z1, X2, Y2, Z2) * ChY3d(X1, Y1, Z1, X2, Y2, Z2) = AddZ(X1, Y1, Z1, X2, Y2, Z2) * ChY3n(X1, Y1, Z1, X2, Y2, Z2)
  BY Z3T(300) DEF AddY, AddZ, AddA, AddU, AddV, ChY3d, ChY3n, ChX3d, ChX3n

\* representation independence: scaling an operand by l scales the result by a power of l
THEOREM DoubleHomogeneous ==
  \A X, Y, Z, l \in Int :
     /\ DblX(l * X, l * Y, l * Z) = (l * l * l * l * l * l) * DblX(X, Y, Z)
     /\ DblY(l * X, l * Y, l * Z) = (l * l * l * l * l * l) * DblY(X, Y, Z)
     /\ DblZ(l * X, l * Y, l * Z) = (l * l * l * l * l * l) * DblZ(X, Y, Z)
  BY Z3T(120) DEF DblX, DblY, DblZ, DblH, DblW, DblS, DblB
THEOREM AddHomogeneous1 ==
  \A X1, Y1, Z1, X2, Y2, Z2, l \in Int :
     /\ AddX(l * X1, l * Y1, l * Z1, X2, Y2, Z2) = (l * l * l * l) * AddX(X1, Y1, Z1, X2, Y2, Z2)
     /\ AddZ(l * X1, l * Y1, l * Z1, X2, Y2, Z2) = (l * l * l * l) * AddZ(X1, Y1, Z1, X2, Y2, Z2)
  BY Z3T(300) DEF AddX, AddZ, AddA, AddU, AddV

\* line function: numerator / denominator is the affine line through P1, P2 evaluated at T
\* chord:  m (xt - x1) - (yt - y1)  with  m = (y2 - y1)/(x2 - x1),  all coordinates as fractions
THEOREM LineChord ==
  \A X1, Y1, Z1, X2, Y2, Z2, Xt, Yt, Zt \in Int :
     LET mn == Y2 * Z1 - Y1 * Z2        \* m = mn / md
         md == X2 * Z1 - X1 * Z2
     IN LineChordN(X1, Y1, Z1, X2, Y2, Z2, Xt, Yt, Zt) * (md * Zt * Z1)
          = LineChordD(X1, Y1, Z1, X2, Y2, Z2, Xt, Yt, Zt) * (mn * (Xt * Z1 - X1 * Zt) - md * (Yt * Z1 - Y1 * Zt))
  BY Z3T(60) DEF LineChordN, LineChordD
\* tangent:  m = 3 x1^2 / (2 y1) = 3 X1^2 / (2 Y1 Z1)
THEOREM LineTangent ==
  \A X1, Y1, Z1, Xt, Yt, Zt \in Int :
     LineTanN(X1, Y1, Z1, Xt, Yt, Zt) * ((2 * Y1 * Z1) * (Zt * Z1))
       = LineTanD(X1, Y1, Z1, Xt, Yt, Zt) * ((3 * X1 * X1) * (Xt * Z1 - X1 * Zt) - (2 * Y1 * Z1) * (Yt * Z1 - Y1 * Zt))
  BY Z3T(60) DEF LineTanN, LineTanD
\* vertical:  xt - x1
THEOREM LineVertical ==
  \A X1, Z1, Xt, Zt \in Int : LineVertN(X1, Z1, Xt, Zt) * (Z1 * Zt) = LineVertD(Z1, Zt) * (Xt * Z1 - X1 * Zt)
  BY Z3T(30) DEF LineVertN, LineVertD

\* secp256k1 Jacobian doubling (a = 0): x3 = m^2 - 2x, y3 = m (x - x3) - y with x = X/Z^2, y = Y/Z^3,
\* m = 3 x^2 / (2 y) = 3 X^2 / (2 Y Z);  nz = 2 Y Z,  so  x3 = nx / nz^2,  y3 = ny / nz^3
THEOREM JacobianDouble ==
  \A X, Y, Z \in Int :
     LET nz == JDblZ(X, Y, Z) IN
     \* x3 nz^2 Z^2 = (3X^2)^2 Z^2 - 2 X (2YZ)^2   (multiply  m^2 - 2x  by nz^2 Z^2 ... all in one identity)
     /\ JDblX(X, Y, Z) * (Z * Z) * (nz * nz) = ((3 * X * X) * (3 * X * X) * (Z * Z) - 2 * X * (nz * nz)) * (nz * nz)
     /\ JDblY(X, Y, Z) * (Z * Z * Z) * (nz * nz * nz) * (Z * Z)
          = ((3 * X * X) * (X * (nz * nz) - JDblX(X, Y, Z) * (Z * Z)) * Z - Y * nz * (nz * nz)) * (nz * nz * nz) * (Z * Z)
  BY Z3T(120) DEF JDblX, JDblY, JDblZ, JDblS, JDblM
=============================================================================
