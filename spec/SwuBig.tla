------------------------------- MODULE SwuBig -------------------------------
(***************************************************************************)
(* Full-size conformance of optimized_swu_G1/G2, iso_map_G1/G2 and         *)
(* map_to_curve_G1/G2 of BLS12-381 with the relational form of RFC 9380's  *)
(* simplified SWU map (Sswu.tla), evaluated by TLC over BigNat (C10).      *)
(*                                                                         *)
(* Elements of Fp are <<a>>, of Fp2 <<re, im>> (BigNat coordinates).  TLC  *)
(* computes tv1, g(x1), x2 itself; quantities that would need a division   *)
(* or a square root are WITNESSES supplied with the row and verified by    *)
(* multiplication:                                                         *)
(*   x1  with  x1 (A tv1) = -B (tv1 + 1)     (x1 (Z A) = B when tv1 = 0)   *)
(*   s   with  s^2 = g(x1)  (g(x1) is a square)  or  s^2 = xi g(x1) # 0    *)
(*       (g(x1) is not: xi = -1 in Fp, 1 + i in Fp2 are non-squares        *)
(*       because p = 3 mod 8, which StdConstants checks)                   *)
(*   (xo, yo) affine image with X = xo D, Y = yo D for the code's          *)
(*       projective output (X, Y, D), D # 0.                               *)
(* Rows:  swu  [g, u, X, Y, D, x1, s, sq, xo, yo]                          *)
(*        iso  [g, X, Y, Z]   -- output of iso_map / map_to_curve: on E    *)
(*        isohom [g, X, Y, X2, Y2] -- affine iso(P + Q) and iso(P) + iso(Q)*)
(***************************************************************************)
EXTENDS StdConstants, Json, IOUtils

Rows   == ndJsonDeserialize(IOEnv.TABLE)
Params == ndJsonDeserialize(IOEnv.PARAMS)[1]    \* [A1, B1]: the 11-isogenous curve's coefficients as exported
Stride == 8
VARIABLE i

P == BlsP
EZero(d) == IF d = 1 THEN <<Zero>> ELSE <<Zero, Zero>>
EOne(d)  == IF d = 1 THEN <<One>> ELSE <<One, Zero>>
EAdd(a, b) == [k \in 1..Len(a) |-> AddMod(a[k], b[k], P)]
ESub(a, b) == [k \in 1..Len(a) |-> SubMod(a[k], b[k], P)]
ENeg(a)    == [k \in 1..Len(a) |-> NegMod(a[k], P)]
EMul(a, b) == IF Len(a) = 1 THEN <<FMul(P, a[1], b[1])>> ELSE F2Mul(P, a, b)
ESqr(a)    == EMul(a, a)
IsE(d, a)  == Len(a) = d /\ \A k \in 1..d : IsNat(a[k]) /\ Less(a[k], P)

\* curve and map parameters.  G2: A' = 240 i, B' = 1012 (1 + i), Z = -(2 + i) (RFC 9380 8.8.2, pinned);
\* G1: Z = 11 (pinned), A', B' of the 11-isogenous curve as exported by the library (frozen copy)
SA(g) == IF g = 1 THEN <<Params.A1>> ELSE <<Zero, N(240)>>
SB(g) == IF g = 1 THEN <<Params.B1>> ELSE <<N(1012), N(1012)>>
SZ(g) == IF g = 1 THEN <<N(11)>> ELSE <<Sub(P, N(2)), Sub(P, One)>>
Xi(g) == IF g = 1 THEN <<Sub(P, One)>> ELSE <<One, One>>      \* a non-square (p = 3 mod 8)

Gx(g, x) == EAdd(EAdd(EMul(ESqr(x), x), EMul(SA(g), x)), SB(g))

\* sgn0 of RFC 9380 section 4.1 for m = 1, 2
Par(a) == IF a = <<>> THEN 0 ELSE a[1] % 2
Sgn0E(a) == IF Len(a) = 1 THEN Par(a[1])
            ELSE IF Par(a[1]) = 1 \/ (a[1] = Zero /\ Par(a[2]) = 1) THEN 1 ELSE 0

SwuOK(r) ==
  LET g == r.g d == r.g u == r.u
      zu2 == EMul(SZ(g), ESqr(u))
      tv1 == EAdd(ESqr(zu2), zu2)
      gx1 == Gx(g, r.x1)
      x   == IF r.sq = 1 THEN r.x1 ELSE EMul(zu2, r.x1)
  IN /\ IsE(d, u) /\ IsE(d, r.X) /\ IsE(d, r.Y) /\ IsE(d, r.D) /\ IsE(d, r.x1) /\ IsE(d, r.s)
     /\ IsE(d, r.xo) /\ IsE(d, r.yo)
     /\ r.D # EZero(d)
     /\ r.X = EMul(r.xo, r.D) /\ r.Y = EMul(r.yo, r.D)                 \* (xo, yo) is the affine image
     /\ IF tv1 = EZero(d)
        THEN EMul(r.x1, EMul(SZ(g), SA(g))) = SB(g)                     \* exceptional case
        ELSE EMul(r.x1, EMul(SA(g), tv1)) = ENeg(EMul(SB(g), EAdd(tv1, EOne(d))))
     /\ IF r.sq = 1 THEN ESqr(r.s) = gx1
        ELSE ESqr(r.s) = EMul(Xi(g), gx1) /\ gx1 # EZero(d)
     /\ r.xo = x
     /\ ESqr(r.yo) = Gx(g, x)
     /\ Sgn0E(r.yo) = Sgn0E(u)

(***************************************************************************)
(* Homogeneous projective arithmetic on the ISOGENOUS curve                *)
(* E'_g: y^2 = x^3 + SA(g) x + SB(g)  over BigNat (no division), used to   *)
(* decide whether a point is killed by the isogeny degree.                 *)
(***************************************************************************)
ETimes(k, x) == LET x2 == EAdd(x, x) x4 == EAdd(x2, x2) IN
                IF k = 1 THEN x ELSE IF k = 2 THEN x2 ELSE IF k = 3 THEN EAdd(x2, x) ELSE IF k = 4 THEN x4
                ELSE EAdd(x4, x4)      \* k = 8
PDbl(g, Pt) ==
  LET X == Pt[1] Y == Pt[2] Z == Pt[3] d == g IN
  IF Z = EZero(d) \/ Y = EZero(d) THEN <<EZero(d), EOne(d), EZero(d)>>
  ELSE LET W  == EAdd(EMul(SA(g), ESqr(Z)), ETimes(3, ESqr(X)))
           S  == EMul(Y, Z)
           Bq == EMul(EMul(X, Y), S)
           H  == ESub(ESqr(W), ETimes(8, Bq))
           S2 == ESqr(S)
       IN <<ETimes(2, EMul(H, S)),
            ESub(EMul(W, ESub(ETimes(4, Bq), H)), ETimes(8, EMul(ESqr(Y), S2))),
            ETimes(8, EMul(S2, S))>>
PAddP(g, Pt, Qt) ==
  LET d == g IN
  IF Pt[3] = EZero(d) THEN Qt
  ELSE IF Qt[3] = EZero(d) THEN Pt
  ELSE LET U1 == EMul(Qt[2], Pt[3]) U2 == EMul(Pt[2], Qt[3])
           V1 == EMul(Qt[1], Pt[3]) V2 == EMul(Pt[1], Qt[3])
       IN IF V1 = V2 THEN (IF U1 = U2 THEN PDbl(g, Pt) ELSE <<EZero(d), EOne(d), EZero(d)>>)
          ELSE LET U  == ESub(U1, U2) V == ESub(V1, V2) W == EMul(Pt[3], Qt[3])
                   V2s == ESqr(V) V3 == EMul(V2s, V)
                   Aq == ESub(ESub(EMul(ESqr(U), W), V3), ETimes(2, EMul(V2s, V2)))
               IN <<EMul(V, Aq), ESub(EMul(U, ESub(EMul(V2s, V2), Aq)), EMul(V3, U2)), EMul(V3, W)>>
\* the degree of the isogeny: 11 on E'(Fp), 3 on E'(Fp2)
KilledByDegree(g, x, y) ==
  LET P1 == <<x, y, EOne(g)>>
      P2 == PDbl(g, P1)
  IN IF g = 2 THEN PAddP(g, P2, P1)[3] = EZero(g)
     ELSE LET P4 == PDbl(g, P2) P8 == PDbl(g, P4) P10 == PAddP(g, P8, P2)
          IN PAddP(g, P10, P1)[3] = EZero(g)

\* the output (X : Y : Z) of iso_map / map_to_curve for the SWU image (xo, yo) of u.
\* Z # 0: a point of E: y^2 = x^3 + 4 (G1) / E': y^2 = x^3 + 4 (1 + i) (G2).
\* Z = 0 (the identity) is right only for a point of the isogeny's kernel; every kernel point is killed by the
\* degree, and that necessary condition is evaluated here on the isogenous curve (the row then repeats the SWU
\* fields, so that (xo, yo) is the verified SWU image of u).
IsoOK(r) ==
  LET d == r.g
      b == IF d = 1 THEN <<N(4)>> ELSE <<N(4), N(4)>>
      z2 == ESqr(r.Z)
  IN /\ IsE(d, r.X) /\ IsE(d, r.Y) /\ IsE(d, r.Z)
     /\ IF r.Z = EZero(d)
        THEN /\ SwuOK(r.swu) /\ r.swu.g = r.g /\ r.swu.u = r.u
             /\ KilledByDegree(d, r.swu.xo, r.swu.yo)
        ELSE EMul(ESqr(r.Y), r.Z) = EAdd(EMul(ESqr(r.X), r.X), EMul(b, EMul(z2, r.Z)))

\* the isogeny is a group homomorphism: iso(P + Q) and iso(P) + iso(Q) (both evaluated by the library on two
\* distinct SWU images P, Q with its generic chord addition, which does not involve the curve coefficient)
\* are the same affine point, on E / E'
HomOK(r) ==
  LET d == r.g b == IF d = 1 THEN <<N(4)>> ELSE <<N(4), N(4)>> IN
  /\ IsE(d, r.X) /\ IsE(d, r.Y) /\ IsE(d, r.X2) /\ IsE(d, r.Y2)
  /\ r.X = r.X2 /\ r.Y = r.Y2
  /\ ESqr(r.Y) = EAdd(EMul(ESqr(r.X), r.X), b)

RowOK(r) == CASE r.op = "swu" -> SwuOK(r) [] r.op = "iso" -> IsoOK(r) [] r.op = "isohom" -> HomOK(r) [] OTHER -> FALSE

Init == i = 0
Next == \/ i = 0 /\ i' \in 1..(IF Stride < Len(Rows) THEN Stride ELSE Len(Rows))
        \/ i > 0 /\ i + Stride <= Len(Rows) /\ i' = i + Stride
Spec == Init /\ [][Next]_i
PremisesOK == i = 0 => Mod(P, N(8)) = N(3)
RowsOK == i > 0 => (Rows[i].exc = "" /\ RowOK(Rows[i]))
=============================================================================
