--------------------------- MODULE MC_PolyEuclid ---------------------------
(***************************************************************************)
(* (A) The polynomial extended-Euclid step machine of PolyEuclid.tla,      *)
(* explored exhaustively: every element of every field listed in           *)
(* IOEnv.FIELDS (ndjson of Field.tla descriptors).                         *)
(***************************************************************************)
EXTENDS PolyEuclid, Json, IOUtils

Fields == ndJsonDeserialize(IOEnv.FIELDS)

VARIABLES pc, fi, X, lm, hm, low, high, res
vars == <<pc, fi, X, lm, hm, low, high, res>>
F == Fields[fi]

Init == /\ pc = "start" /\ fi = 1 /\ X = <<0>> /\ lm = <<0>> /\ hm = <<0>> /\ low = <<0>> /\ high = <<0>>
        /\ res = <<0>>

Start == /\ pc = "start"
         /\ \E f \in 1..Len(Fields) : \E x \in Elem(Fields[f]) :
              /\ fi' = f /\ X' = x
              /\ lm' = POne(Fields[f]) /\ hm' = PZero(Fields[f])
              /\ low' = Lift(Fields[f], x) /\ high' = ModPoly(Fields[f])
         /\ pc' = "loop" /\ UNCHANGED res

Step == /\ pc = "loop" /\ Deg(low) > 0
        /\ LET r == DivCode(F, high, low) IN
           /\ AbstractStep(F, r, lm, hm, low, high, lm', hm', low', high')
        /\ UNCHANGED <<pc, fi, X, res>>

Exit == /\ pc = "loop" /\ Deg(low) = 0
        /\ pc' = "done" /\ res' = ResultOf(F, lm, low)
        /\ UNCHANGED <<fi, X, lm, hm, low, high>>

Next == Start \/ Step \/ Exit
Spec == Init /\ [][Next]_vars /\ WF_vars(Step) /\ WF_vars(Exit)

ASSUME FieldsOK == \A f \in 1..Len(Fields) : WellFormed(Fields[f])

LoopInv == pc = "loop" =>
  /\ Congruent(F, lm, X, low)
  /\ Congruent(F, hm, X, high)
\* the double loop of inv drops terms of degree > D: none is ever non-zero
NoTruncation == pc = "loop" /\ Deg(low) > 0 =>
  LET r == DivCode(F, high, low) IN NoTrunc(F, lm, r) /\ NoTrunc(F, low, r)
Decreases == [][(pc = "loop" /\ pc' = "loop") => Measure(low', high') < Measure(low, high)]_vars
ResultOK == pc = "done" =>
  IF X = Zero(F) THEN res = Zero(F) ELSE Mul(F, res, X) = One(F)
Terminates == (pc = "loop") ~> (pc = "done")
\* how sloppy the code's division is: a counter-example to this (expected to exist) is a state where the
\* remainder is not smaller than the divisor; used only as a documented probe, not as a registered invariant
EuclideanQuotient == pc = "loop" /\ Deg(low) > 0 /\ Deg(high) >= Deg(low) =>
  LET r == DivCode(F, high, low) IN Deg(PSub(F, high, TruncMul(F, low, r))) < Deg(low)
=============================================================================
