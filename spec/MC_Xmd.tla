------------------------------- MODULE MC_Xmd -------------------------------
(***************************************************************************)
(* Exhaustive check of Xmd.tla with the toy hash: for every message over a *)
(* small alphabet, every tag length class and every requested length, the  *)
(* output has exactly the requested length unless the call aborts, it      *)
(* aborts exactly for ell > 255, len > 65535 or a tag above 255 bytes, and *)
(* outputs for a shorter request with the same ell are NOT a prefix        *)
(* relation by accident of the spec (len is bound into b_0): a change of   *)
(* len, msg or tag changes b_0's input.                                    *)
(***************************************************************************)
EXTENDS Xmd

VARIABLE st
Hs == {[kind |-> "toy", b |-> 1, s |-> 2], [kind |-> "toy", b |-> 2, s |-> 4]}
Msgs == {<<>>, <<0>>, <<1>>, <<0, 0>>, <<1, 0>>, <<0, 1, 2>>}
Dsts == {<<>>, <<7>>, Rep(7, 2), Rep(9, 254), Rep(9, 255), Rep(9, 256)}
Lens(H) == (0..(3 * H.b + 1)) \cup {255 * H.b - 1, 255 * H.b, 255 * H.b + 1, 65535, 65536}

B0In(H, msg, dst, len) == Rep(0, H.s) \o msg \o I2OSPr(len, 2) \o <<0>> \o Append(dst, Len(dst))

CaseOK(H, m, d) ==
    \A len \in Lens(H) :
      LET ab == Aborts(H, d, len) IN
      /\ ab <=> (len > 255 * H.b \/ Len(d) > 255)
      /\ (~ab => LET o == Expand(H, m, d, len) IN o # NoHash /\ Len(o) = len /\ IsBytes(o))
      \* b_0's input is injective in the requested length (len is bound into every output)
      /\ (~ab => \A len2 \in Lens(H) : (len2 # len /\ len2 <= 65535) =>
                    B0In(H, m, d, len) # B0In(H, m, d, len2))

Init == st = <<"root">>
Next == \/ st[1] = "root" /\ \E H \in Hs, m \in Msgs, d \in Dsts : st' = <<"case", H, m, d>>
        \/ st[1] = "case" /\ st' = <<"done", CaseOK(st[2], st[3], st[4])>>   \* the work, shared by workers
Spec == Init /\ [][Next]_st


Inv == st[1] = "done" => st[2]
=============================================================================
