----------------------------- MODULE ToyPairing -----------------------------
(***************************************************************************)
(* The ate pairing of a TOY curve with embedding degree 12 and j = 0       *)
(* (p = 1747, r = 241, y^2 = x^3 + 2, trace t = 61), computed by TLC       *)
(* itself over the mathematical field and curve of Field.tla / Curve.tla   *)
(* (C05, C12 growth):                                                      *)
(*   tower  Fp2 = Fp[i]/(i^2+1),  Fp12 = Fp[w]/(w^12 - 2 w^6 + 2)          *)
(*          (the BLS12-381 tower: w^6 = 1 + i)                             *)
(*   E: y^2 = x^3 + b,  E': y^2 = x^3 + b (1 + i)  (M-type sextic twist)   *)
(*   f = Miller loop over T = t - 1 with the tangent / chord lines of      *)
(*       Curve.Line, then final exponentiation by (p^12 - 1) / r           *)
(* -- exactly the structure of py_ecc's bls12_381 / optimized_bls12_381    *)
(* pairing code (loop over |x|, no Frobenius steps).  That code, run as    *)
(* private module copies with these toy constants, must return exactly     *)
(* these twelve coefficients; and the specification's own pairing is       *)
(* bilinear, non-degenerate and of order r (checked by TLC on the spec).   *)
(* The parameters were found by search (harness/toypairing.py) and their   *)
(* premises are re-checked here.  A BN toy for the bn128 code does not     *)
(* exist below 2^15.5: at u = 5 the D-type twist by 9 + i has no           *)
(* r-torsion (see DESIGN.md 10.3).                                         *)
(***************************************************************************)
EXTENDS Curve, Json, IOUtils

SC == INSTANCE StdConstants

Params == ndJsonDeserialize(IOEnv.PARAMS)[1]     \* [p, r, T, b, g1 |-> <<x, y>>, g2 |-> <<<<xr, xi>>, <<yr, yi>>>>]
Rows   == ndJsonDeserialize(IOEnv.TABLE)
Stride == 4
VARIABLE i

TP == Params.p
TR == Params.r
Ate == Params.T                               \* t - 1
F1  == [p |-> TP, d |-> 1, mc |-> <<0>>]
F2  == [p |-> TP, d |-> 2, mc |-> <<1, 0>>]
F12 == [p |-> TP, d |-> 12, mc |-> <<2, 0, 0, 0, 0, 0, (0 - 2) % TP, 0, 0, 0, 0, 0>>]
B1  == <<Params.b>>
XiE == <<1, 1>>
B2  == Mul(F2, <<Params.b, 0>>, XiE)
C1  == [F |-> F1, a |-> <<0>>, b |-> B1]
C2  == [F |-> F2, a |-> <<0, 0>>, b |-> B2]
C12 == [F |-> F12, a |-> Zero(F12), b |-> [k \in 1..12 |-> IF k = 1 THEN Params.b ELSE 0]]
G1 == <<<<Params.g1[1]>>, <<Params.g1[2]>>>>
G2 == Params.g2

\* (p^12 - 1) / r as bits, computed over BigNat (r fits a limb)
EQuot == SC!DivSmall(SC!Sub(SC!PowN(SC!OfInt(TP), 12), SC!One), TR)
EBits == SC!ToBits(EQuot.q)

Cast(P) == IF P = INF THEN INF
           ELSE <<[k \in 1..12 |-> IF k = 1 THEN P[1][1] ELSE 0], [k \in 1..12 |-> IF k = 1 THEN P[2][1] ELSE 0]>>
Tw(Q) == TwistM(F12, 1, Q)
LineV(P1, P2, T) == Line(C12, P1, P2, T)

AteBits == Bits(Ate)                       \* LSB first; the top bit is implicit (R starts at Q)
\* one iteration of the Miller loop (bit AteBits[k]) from the loop state (f, R): the STEP of the loop as a relation
MStep(k, f, R, Q, P) ==
  LET f1 == Mul(F12, Sqr(F12, f), LineV(R, R, P))
      R1 == PDouble(C12, R)
  IN IF AteBits[k] = 1
     THEN <<Mul(F12, f1, LineV(R1, Q, P)), PAdd(C12, R1, Q)>>
     ELSE <<f1, R1>>
RECURSIVE MLoop(_, _, _, _, _)
MLoop(k, f, R, Q, P) ==
  IF k < 1 THEN <<f, R>>
  ELSE LET s == MStep(k, f, R, Q, P) IN MLoop(k - 1, s[1], s[2], Q, P)
Frob(x) == Pow(F12, x, TP)
Miller(Q, P) ==
  IF Q = INF \/ P = INF THEN One(F12)
  ELSE MLoop(Len(AteBits) - 1, One(F12), Q, Q, P)[1]
FinalExp(x) == PowBits(F12, x, EBits)
Pairing(Q, P) == FinalExp(Miller(Tw(Q), Cast(P)))

SM1(n) == MulBits(C1, G1, Bits(n))
SM2(n) == MulBits(C2, G2, Bits(n))

RowOK(r) ==
  CASE r.op = "pair" -> r.r = Pairing(SM2(r.b), SM1(r.a))
    \* the value BEFORE the final exponentiation (optimized module, final_exponentiate = False): the
    \* numerator / denominator accumulation must give exactly the Miller function value
    [] r.op = "miller" -> r.r = Miller(Tw(SM2(r.b)), Cast(SM1(r.a)))
    [] r.op = "fe"   -> r.r = FinalExp(r.x)                 \* final_exponentiate(x) for an arbitrary element
    [] r.op = "frob" -> r.r = Frob(r.x)
    [] OTHER -> FALSE

(***************************************************************************)
(* Step-level conformance of the two Miller loops (reported, not a         *)
(* violation: another correct loop is not a defect).  The recorder takes   *)
(* the loop state at every evaluation of the `for` line of miller_loop     *)
(* (reference: f, R; optimized: f_num, f_den, twist_R) with sys.settrace;  *)
(* the abstraction is f = f_num / f_den and the affine point of R.  Every  *)
(* recorded transition must be MStep from the RECORDED predecessor, the    *)
(* loop starts in (1, Q), runs once per bit below the top bit of T, and R  *)
(* is the multiple of Q by the bits consumed so far (loop invariant).      *)
(***************************************************************************)
MAbs(s) == <<Div(F12, s.f, s.fd), ProjToAff(C12, s.R)>>
RowModelOK(r) ==
  LET n == Len(AteBits) - 1
      Q == Tw(SM2(r.b))
      P == Cast(SM1(r.a))
      s == r.states
  IN /\ Len(s) = n + 1
     /\ MAbs(s[1]) = <<One(F12), Q>>
     /\ \A j \in 1..n : LET a == MAbs(s[j]) IN MAbs(s[j + 1]) = MStep(n + 1 - j, a[1], a[2], Q, P)
     /\ \A j \in 0..n : MAbs(s[j + 1])[2] = MulBits(C12, Q, Bits(Ate \div (2 ^ (n - j))))

Premises ==
  /\ IsPrime(TP) /\ IsPrime(TR) /\ TP % 4 = 3 /\ EQuot.r = 0
  /\ LET pm == TP % TR p2 == (pm * pm) % TR p4 == (p2 * p2) % TR IN (p4 - p2 + 1) % TR = 0   \* r | Phi_12(p)
  /\ Ate > 0 /\ (Ate - TP) % TR = 0                                       \* T = t - 1 = p (mod r)
  /\ OnCurve(C1, G1) /\ MulBits(C1, G1, Bits(TR)) = INF
  /\ OnCurve(C2, G2) /\ G2 # INF /\ MulBits(C2, G2, Bits(TR)) = INF
  /\ OnCurve(C12, Tw(G2))
\* the specification's own pairing is a non-degenerate bilinear map of order r
SpecTheorems ==
  LET e11 == Pairing(G2, G1) IN
  /\ e11 # One(F12)
  /\ PowBits(F12, e11, Bits(TR)) = One(F12)
  /\ Pairing(SM2(2), G1) = Mul(F12, e11, e11)
  /\ Pairing(G2, SM1(2)) = Mul(F12, e11, e11)
  /\ Pairing(SM2(3), SM1(5)) = PowBits(F12, e11, Bits(15))
  /\ Pairing(PNeg(C2, G2), G1) = InvF(F12, e11)
  /\ Pairing(INF, G1) = One(F12) /\ Pairing(G2, INF) = One(F12)

Init == i = 0
Next == \/ i = 0 /\ i' \in 1..(IF Stride < Len(Rows) THEN Stride ELSE Len(Rows))
        \/ i > 0 /\ i + Stride <= Len(Rows) /\ i' = i + Stride
Spec == Init /\ [][Next]_i
PremisesOK == i = 0 => Premises /\ SpecTheorems
RowsOK == i > 0 => (Rows[i].exc = "" /\ RowOK(Rows[i]))
ModelOK == i > 0 => (Rows[i].exc = "" => RowModelOK(Rows[i]))
=============================================================================
