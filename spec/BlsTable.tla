------------------------------ MODULE BlsTable ------------------------------
(***************************************************************************)
(* Code -> spec conformance of the BLS ciphersuites (C01 - C04).  One row  *)
(* per executed call of the real library:                                  *)
(*   run  [sc |-> scenario (as in BlsModel), got |-> 0/1 returned boolean, *)
(*         raised |-> 0/1, pair |-> <<[qonc, qsub, ponc, psub, pinf]>>]    *)
(*        pair lists every pairing() evaluation of the run with the class  *)
(*        of the points actually handed to it;                             *)
(*   sk   [cls, suite, op, raised |-> 0/1 (ValidationError), ok |-> 0/1    *)
(*         (the round trip Sign -> Verify / PopProve -> PopVerify / pk      *)
(*         passes KeyValidate)]                                            *)
(*   agg  [a, b |-> lists of signature descriptions, eq |-> 0/1 (the two   *)
(*         Aggregate outputs are the same 96 bytes), raised]               *)
(***************************************************************************)
EXTENDS BlsModel

Rows   == ndJsonDeserialize(IOEnv.TABLE)
Stride == 32
VARIABLE i

B2N(b) == IF b THEN 1 ELSE 0
PairSafe(ev) == ev.qonc = 1 /\ ev.qsub = 1 /\ ev.ponc = 1 /\ ev.psub = 1 /\ ev.pinf = 0

(***************************************************************************)
(* The verification pipeline as observed step by step (wrappers on         *)
(* KeyValidate, pubkey_to_G1, signature_to_G2, subgroup_check, hash_to_G2, *)
(* pairing, final_exponentiate):  a pairing is evaluated ONLY AFTER the    *)
(* points it receives were validated --                                    *)
(*   its G1 argument is +-G1 or +-(a key that KeyValidate accepted before),*)
(*   its G2 argument is a hash point or the signature point that           *)
(*   subgroup_check accepted before --                                     *)
(* and TRUE is returned only after a final exponentiation that follows     *)
(* at least two pairings.  The ORDER of the validation steps among         *)
(* themselves is deliberately not constrained.                             *)
(***************************************************************************)
PipelineOK(r) ==
  LET stp == r.steps IN
  /\ \A j \in 1..Len(stp) :
        stp[j].k = "pair" =>
          /\ stp[j].psrc \in {"g1", "pk"} /\ stp[j].qsrc \in {"sig", "hash"}
          /\ (stp[j].psrc = "pk" => \E m \in 1..(j - 1) : stp[m].k = "kv" /\ stp[m].pk = stp[j].pk /\ stp[m].res = 1)
          /\ (stp[j].qsrc = "sig" => \E m \in 1..(j - 1) : stp[m].k = "ssub" /\ stp[m].pt = stp[j].q /\ stp[m].res = 1)
  /\ ((r.got = 1 /\ r.sc.entry # "KeyValidate") =>
        \E f \in 1..Len(stp) : /\ stp[f].k = "fe"
                              /\ Cardinality({j \in 1..(f - 1) : stp[j].k = "pair"}) >= 2
                              /\ \A j \in (f + 1)..Len(stp) : stp[j].k # "pair")

Flat(ds) == IF ds = <<>> THEN <<>> ELSE FoldLeft(LAMBDA acc, d : acc \o d, <<>>, ds)

\* an argument that is not a byte string at all (a memoryview of 16-bit items over twice the bytes): the property
\* speaks about byte strings, so refusing it by raising is tolerated - accepting it is not
OutOfDomainType(s0) == s0.sig.cls = "wide_view" \/ \E k \in 1..Len(s0.pks) : s0.pks[k].cls = "wide_view"

RowOK(r) ==
  CASE r.op = "run" -> /\ (r.raised = 0 \/ OutOfDomainType(r.sc))           \* total: never raises (on byte strings)
                       /\ r.got = B2N(Predict(r.sc))
                       /\ r.again = r.got                                  \* ... however often the input is presented
                       /\ \A k \in 1..Len(r.pair) : PairSafe(r.pair[k])      \* no pairing on unsafe points
                       /\ (r.stepsok = 1 => PipelineOK(r))                    \* ... and only after validation
                       /\ ((r.got = 1 /\ r.sc.entry # "KeyValidate") => Len(r.pair) >= 2)   \* acceptance rests on the pairing equation
    [] r.op = "sk"  -> IF SkAccepted(r.cls) THEN r.raised = 0 /\ r.ok = 1
                       ELSE r.raised = 1
    \* one key, one message, one interpreter: the canonical signature, its negation, the identity, a signature on
    \* another message and under another key, presented in an arbitrary order with repetitions - each call accepts
    \* exactly the canonical one (C02), whatever was presented before
    [] r.op = "vseq" -> /\ Len(r.calls) > 0
                        /\ \A k \in 1..Len(r.calls) : r.calls[k].got = B2N(r.calls[k].kind = "canonical")
    [] r.op = "agg" -> IF Len(r.a) = 0 \/ Len(r.b) = 0 THEN r.raised = 1
                       ELSE r.raised = 0 /\ r.eq = B2N(SigVal(Flat(r.a)) = SigVal(Flat(r.b)))
    [] OTHER -> FALSE

TInit == i = 0 /\ st = <<"root">>
TNext == /\ UNCHANGED st
         /\ \/ i = 0 /\ i' \in 1..(IF Stride < Len(Rows) THEN Stride ELSE Len(Rows))
            \/ i > 0 /\ i + Stride <= Len(Rows) /\ i' = i + Stride
TSpec == TInit /\ [][TNext]_<<i, st>>
RowsOK == i > 0 => (Rows[i].exc = "" /\ RowOK(Rows[i]))
=============================================================================
