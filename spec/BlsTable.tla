------------------------------ MODULE BlsTable ------------------------------
(***************************************************************************)
(* Code -> spec conformance of the BLS ciphersuites (C01 - C04).  One row  *)
(* per executed call of the real library:                                  *)
(*   run  [sc |-> scenario (as in BlsModel), got |-> 0/1 returned boolean, *)
(*         raised |-> 0/1, pair |-> <<[qonc, qsub, ponc, psub, pinf]>>]    *)
(*        pair lists every pairing() evaluation of the run with the class  *)
(*        of the points actually handed to it;                             *)
(*   sk   [cls, suite, op, raised |-> 0/1 (ValidationError), ok |-> 0/1    *)
(*         (the round trip Sign -> Verify / PopProve -> PopVerify / pk      *)
(*         passes KeyValidate)]                                            *)
(*   agg  [a, b |-> lists of signature descriptions, eq |-> 0/1 (the two   *)
(*         Aggregate outputs are the same 96 bytes), raised]               *)
(***************************************************************************)
EXTENDS BlsModel

Rows   == ndJsonDeserialize(IOEnv.TABLE)
Stride == 32
VARIABLE i

B2N(b) == IF b THEN 1 ELSE 0
PairSafe(ev) == ev.qonc = 1 /\ ev.qsub = 1 /\ ev.ponc = 1 /\ ev.psub = 1 /\ ev.pinf = 0

Flat(ds) == IF ds = <<>> THEN <<>> ELSE FoldLeft(LAMBDA acc, d : acc \o d, <<>>, ds)

RowOK(r) ==
  CASE r.op = "run" -> /\ r.raised = 0                                      \* total: never raises
                       /\ r.got = B2N(Predict(r.sc))
                       /\ \A k \in 1..Len(r.pair) : PairSafe(r.pair[k])      \* no pairing on unsafe points
                       /\ ((r.got = 1 /\ r.sc.entry # "KeyValidate") => Len(r.pair) >= 2)   \* acceptance rests on the pairing equation
    [] r.op = "sk"  -> IF SkAccepted(r.cls) THEN r.raised = 0 /\ r.ok = 1
                       ELSE r.raised = 1
    [] r.op = "agg" -> IF Len(r.a) = 0 \/ Len(r.b) = 0 THEN r.raised = 1
                       ELSE r.raised = 0 /\ r.eq = B2N(SigVal(Flat(r.a)) = SigVal(Flat(r.b)))
    [] OTHER -> FALSE

TInit == i = 0 /\ st = <<"root">>
TNext == /\ UNCHANGED st
         /\ \/ i = 0 /\ i' \in 1..(IF Stride < Len(Rows) THEN Stride ELSE Len(Rows))
            \/ i > 0 /\ i + Stride <= Len(Rows) /\ i' = i + Stride
TSpec == TInit /\ [][TNext]_<<i, st>>
RowsOK == i > 0 => (Rows[i].exc = "" /\ RowOK(Rows[i]))
=============================================================================
