------------------------------- MODULE Purity -------------------------------
(***************************************************************************)
(* Purity and history independence of the public API (C20).                *)
(*                                                                         *)
(* The alphabet is a finite set of call descriptors 1..NCalls (each a      *)
(* public function with fixed arguments, across all modules, field         *)
(* classes, curves and ciphersuites; the harness owns the table).  A       *)
(* behaviour of this machine is a history of calls in one interpreter.     *)
(* The library is pure iff in EVERY history                                *)
(*   Functional   the result of call c is Val[c], the result of the same   *)
(*                call made alone in a freshly started interpreter;        *)
(*   ArgsFrozen   the arguments are unchanged by the call;                 *)
(*   ConstsFrozen every module-level constant keeps its initial value.     *)
(* (A) the generator below is what TLC explores / simulates; (B) its       *)
(* behaviours are executed on the real library; (C) the recorded history   *)
(* -- digests of the deep projection of results, arguments (before and     *)
(* after) and all listed constants -- is validated by PurityTrace.tla.     *)
(***************************************************************************)
EXTENDS Integers, Sequences, TLC, Json, IOUtils

NCalls == atoi(IOEnv.NCALLS)
Depth  == atoi(IOEnv.DEPTH)

VARIABLE hist
Init == hist = <<>>
Next == Len(hist) < Depth /\ \E c \in 1..NCalls : hist' = Append(hist, c)
Spec == Init /\ [][Next]_hist

\* every behaviour of length Depth, one JSON line each (spec -> code)
Dump == Len(hist) # Depth \/ PrintT(ToJson([hist |-> hist]))
=============================================================================
