------------------------------- MODULE Curve -------------------------------
(***************************************************************************)
(* Short Weierstrass curves  y^2 = x^3 + a x + b  over the fields of       *)
(* Field.tla: the affine chord-and-tangent group law with a point at       *)
(* infinity -- the independent affine model that bn128, bls12_381, the two *)
(* optimized modules and secp256k1 are specified against (C07 C13 C17 C18).*)
(*                                                                         *)
(* A curve descriptor is  C = [F |-> field, a |-> elem, b |-> elem].       *)
(* A point is INF or a pair <<x, y>> of field elements.                    *)
(***************************************************************************)
EXTENDS Field

INF == <<>>   \* comparable with pairs (TLC cannot compare a string with a tuple)

(***************************************************************************)
(* Mathematical inverse, computable by TLC in any field of Field.tla:      *)
(* a^(q-2) with q = p^d, using  q - 2 = (p-2) + (p-1)(p + p^2 + .. +       *)
(* p^(d-1)), so every exponent stays below p (32-bit safe).                *)
(***************************************************************************)
RECURSIVE FrobProd(_, _, _, _)
\* product of a^(p^j) for j = k..d-1, given cur = a^(p^k)
FrobProd(F, cur, k, acc) ==
  IF k > F.d - 1 THEN acc
  ELSE FrobProd(F, Pow(F, cur, F.p), k + 1, Mul(F, acc, cur))

InvF(F, a) ==
  IF F.d = 1 THEN <<InvP(F.p, a[1])>>
  ELSE IF a = Zero(F) THEN Zero(F)
  ELSE LET c == FrobProd(F, Pow(F, a, F.p), 1, One(F))
       IN Mul(F, Pow(F, a, F.p - 2), Pow(F, c, F.p - 1))
Div(F, a, b) == Mul(F, a, InvF(F, b))

FieldSize(F) == F.p ^ F.d
\* Euler's criterion (odd characteristic): a is a square iff a = 0 or a^((|F|-1)/2) = 1
IsSquare(F, a) == a = Zero(F) \/ Pow(F, a, (FieldSize(F) - 1) \div 2) = One(F)

Cube(F, x) == Mul(F, Mul(F, x, x), x)
Rhs(C, x) == Add(C.F, Add(C.F, Cube(C.F, x), Mul(C.F, C.a, x)), C.b)

IsPoint(C, P) == P = INF \/ (Len(P) = 2 /\ IsElem(C.F, P[1]) /\ IsElem(C.F, P[2]))
OnCurve(C, P) == P = INF \/ Sqr(C.F, P[2]) = Rhs(C, P[1])

\* number of points by Euler's criterion: 1 + sum over x of (1 + chi(x^3 + a x + b))
CountPoints(C) ==
  1 + FoldLeft(LAMBDA acc, x : acc + (IF Rhs(C, x) = Zero(C.F) THEN 1 ELSE IF IsSquare(C.F, Rhs(C, x)) THEN 2 ELSE 0),
               0, SetToSeq(Elem(C.F)))

PNeg(C, P) == IF P = INF THEN INF ELSE <<P[1], Neg(C.F, P[2])>>

PDouble(C, P) ==
  IF P = INF \/ P[2] = Zero(C.F) THEN INF
  ELSE LET F  == C.F
           x  == P[1]
           y  == P[2]
           m  == Div(F, Add(F, ScalarMul(F, Sqr(F, x), 3), C.a), ScalarMul(F, y, 2))
           nx == Sub(F, Sqr(F, m), ScalarMul(F, x, 2))
           ny == Sub(F, Mul(F, m, Sub(F, x, nx)), y)
       IN <<nx, ny>>

PAdd(C, P, Q) ==
  IF P = INF THEN Q
  ELSE IF Q = INF THEN P
  ELSE IF P[1] = Q[1] THEN (IF P[2] = Q[2] THEN PDouble(C, P) ELSE INF)
  ELSE LET F  == C.F
           m  == Div(F, Sub(F, Q[2], P[2]), Sub(F, Q[1], P[1]))
           nx == Sub(F, Sub(F, Sqr(F, m), P[1]), Q[1])
           ny == Sub(F, Mul(F, m, Sub(F, P[1], nx)), P[2])
       IN <<nx, ny>>

\* n-fold sum: the meaning of multiply(P, n)
RECURSIVE NFold(_, _, _)
NFold(C, P, n) == IF n = 0 THEN INF ELSE PAdd(C, NFold(C, P, n - 1), P)

\* binary form for scalars beyond 32 bits (bits LSB first): (2k+b)P = 2(kP) + bP.
\* MC_Curve checks MulBits = NFold on every point of the toy curves.
MulBits(C, P, bits) ==
  FoldLeft(LAMBDA acc, k : LET dbl == PAdd(C, acc, acc)
                            IN IF bits[Len(bits) + 1 - k] = 1 THEN PAdd(C, dbl, P) ELSE dbl,
           INF, Idx(1, Len(bits)))

\* line through P and Q (tangent if P = Q, vertical if Q = -P) evaluated at T (all finite)
Line(C, P, Q, T) ==
  LET F == C.F IN
  IF P[1] # Q[1]
  THEN LET m == Div(F, Sub(F, Q[2], P[2]), Sub(F, Q[1], P[1]))
       IN Sub(F, Mul(F, m, Sub(F, T[1], P[1])), Sub(F, T[2], P[2]))
  ELSE IF P[2] = Q[2]
  THEN LET m == Div(F, Add(F, ScalarMul(F, Sqr(F, P[1]), 3), C.a), ScalarMul(F, P[2], 2))
       IN Sub(F, Mul(F, m, Sub(F, T[1], P[1])), Sub(F, T[2], P[2]))
  ELSE Sub(F, T[1], P[1])

(***************************************************************************)
(* Abstraction functions from the representations used by the code.        *)
(***************************************************************************)
\* homogeneous projective (optimized modules): (X : Y : Z) -> (X/Z, Y/Z); Z = 0 is infinity
ProjToAff(C, R) ==
  IF R[3] = Zero(C.F) THEN INF
  ELSE LET zi == InvF(C.F, R[3]) IN <<Mul(C.F, R[1], zi), Mul(C.F, R[2], zi)>>
\* Jacobian (secp256k1): (X, Y, Z) -> (X/Z^2, Y/Z^3); Y = 0 marks the identity in the code
JacToAff(C, R) ==
  IF R[2] = Zero(C.F) \/ R[3] = Zero(C.F) THEN INF
  ELSE LET zi  == InvF(C.F, R[3])
           zi2 == Sqr(C.F, zi)
       IN <<Mul(C.F, R[1], zi2), Mul(C.F, R[2], Mul(C.F, zi2, zi))>>
\* secp256k1's plain pairs: (0, 0) is the identity
PlainToAff(C, R) == IF R[1] = Zero(C.F) /\ R[2] = Zero(C.F) THEN INF ELSE R

(***************************************************************************)
(* The twist embedding E'(F_p^2) -> E(F_p^12).  F12 has  w^12 - 2 s w^6 +  *)
(* (s^2 + 1) = 0, so  i = w^6 - s  is a square root of -1 and              *)
(*   Embed(a + b i) = (a - s b) + b w^6.                                   *)
(* bn128 uses the D-type map (x w^2, y w^3), BLS12-381 the M-type map      *)
(* (x / w^2, y / w^3).                                                     *)
(***************************************************************************)
Embed(F12, s, e) == [k \in 1..12 |-> IF k = 1 THEN (e[1] - s * e[2]) % F12.p
                                     ELSE IF k = 7 THEN e[2] ELSE 0]
W(F12) == [k \in 1..12 |-> IF k = 2 THEN 1 ELSE 0]
TwistD(F12, s, P) ==
  IF P = INF THEN INF
  ELSE LET w == W(F12) w2 == Mul(F12, w, w) w3 == Mul(F12, w2, w)
       IN <<Mul(F12, Embed(F12, s, P[1]), w2), Mul(F12, Embed(F12, s, P[2]), w3)>>
TwistM(F12, s, P) ==
  IF P = INF THEN INF
  ELSE LET w == W(F12) w2 == Mul(F12, w, w) w3 == Mul(F12, w2, w)
       IN <<Div(F12, Embed(F12, s, P[1]), w2), Div(F12, Embed(F12, s, P[2]), w3)>>
=============================================================================
