----------------------------- MODULE EcdsaTable -----------------------------
(***************************************************************************)
(* Code -> spec conformance for ecdsa_raw_sign / ecdsa_raw_recover /       *)
(* privtopub of a private copy of py_ecc.secp256k1 whose constants are     *)
(* replaced by the toy instances in INSTANCES and whose nonce generator is *)
(* replaced by the table's k (C06, C19).  One row per call:                *)
(*   sign    [e, z, d, k, r |-> <<v, r, s>>]                               *)
(*   signrec [e, z, d, k, r |-> <<v, r, s>>, q |-> recovered, o |-> other] *)
(*   recover [e, z, v, r, s, q |-> plain pair, or <<>> for ValueError]     *)
(* Any other exception is recorded in the row's exc field (a rejected row).*)
(*   pub     [e, d, q]                                                     *)
(***************************************************************************)
EXTENDS Ecdsa, Json, IOUtils

Rows      == ndJsonDeserialize(IOEnv.TABLE)
Instances == ndJsonDeserialize(IOEnv.INSTANCES)
Stride    == 64

VARIABLE i

SignOK(E, r) ==
  SignRegular(E, r.z, r.d, r.k) =>
    LET sg == r.r
        Q  == SMul(E, Gen(E), r.d)
    IN /\ r.exc = ""
       /\ sg = SignCode(E, r.z, r.d, r.k)              \* exactly the textbook value for this nonce
       /\ sg[1] \in {27, 28}
       /\ 1 <= sg[2] /\ sg[2] < E.n
       /\ 1 <= sg[3] /\ 2 * sg[3] <= E.n               \* low-s
       /\ Verifies(E, r.z, sg[2], sg[3], Q)

RowOK(r) ==
  LET E == Instances[r.e] IN
  CASE r.op = "sign"    -> SignOK(E, r)
    [] r.op = "signrec" -> /\ SignOK(E, r)
                           /\ SignRegular(E, r.z, r.d, r.k) =>
                                /\ r.q = Plain(SMul(E, Gen(E), r.d))
                                /\ r.o # r.q            \* the other v: raises or another point
    [] r.op = "recover" -> r.exc = "" /\
                           LET Q == RecoverSpec(E, r.z, r.v, r.r, r.s) IN
                           IF Q = ERR THEN r.q = <<>>          \* refused with ValueError
                           ELSE /\ r.q = Plain(Q)
                                /\ RecoverLaw(E, r.z, r.v, r.r, r.s, Q)
                                /\ Verifies(E, r.z, r.r, r.s, Q)
    [] r.op = "pub"     -> r.exc = "" /\ r.q = Plain(SMul(E, Gen(E), r.d % E.n))
    [] OTHER -> FALSE

Init == i = 0
Next == \/ i = 0 /\ i' \in 1..(IF Stride < Len(Rows) THEN Stride ELSE Len(Rows))
        \/ i > 0 /\ i + Stride <= Len(Rows) /\ i' = i + Stride
Spec == Init /\ [][Next]_i

InstancesOK == i = 0 => \A k \in 1..Len(Instances) : InstanceOK(Instances[k])
RowsOK      == i > 0 => RowOK(Rows[i])
=============================================================================
