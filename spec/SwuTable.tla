------------------------------ MODULE SwuTable ------------------------------
(***************************************************************************)
(* Code -> spec conformance of optimized_swu_G1 / optimized_swu_G2 (C10)   *)
(* run as a private module copy with toy constants (A, B, Z, exponents,    *)
(* root tables recomputed for the toy field by the harness).  Rows:        *)
(*   swu [s |-> instance, u |-> element, r |-> projective (X, Y, D)]       *)
(***************************************************************************)
EXTENDS Sswu, Json, IOUtils

Rows   == ndJsonDeserialize(IOEnv.TABLE)
InstJ  == ndJsonDeserialize(IOEnv.INSTANCES)     \* [p, d, mc, A, B, Z]
Claims == ndJsonDeserialize(IOEnv.CLAIMS)
Stride == 64
VARIABLE i

Inst(k) == [F |-> [p |-> InstJ[k].p, d |-> InstJ[k].d, mc |-> InstJ[k].mc],
            A |-> InstJ[k].A, B |-> InstJ[k].B, Z |-> InstJ[k].Z]

RowOK(r) ==
  LET S == Inst(r.s) F == S.F IN
  /\ Len(r.r) = 3 /\ \A k \in 1..3 : IsElem(F, r.r[k])
  /\ r.r[3] # Zero(F)
  /\ IsSwu(S, r.u, <<Div(F, r.r[1], r.r[3]), Div(F, r.r[2], r.r[3])>>)

ClaimOK(c) ==
  LET idx == c.lo..c.hi IN
  /\ \A j \in idx : Rows[j].s = c.s
  /\ {Rows[j].u : j \in idx} = Elem(Inst(c.s).F)          \* every field element was mapped

Init == i = 0
Next == \/ i = 0 /\ i' \in 1..(IF Stride < Len(Rows) THEN Stride ELSE Len(Rows))
        \/ i > 0 /\ i + Stride <= Len(Rows) /\ i' = i + Stride
Spec == Init /\ [][Next]_i
InstancesOK == i = 0 => \A k \in 1..Len(InstJ) : Premises(Inst(k)) /\ UniqueImage(Inst(k))
ClaimsOK    == i = 0 => \A k \in 1..Len(Claims) : ClaimOK(Claims[k])
RowsOK      == i > 0 => (Rows[i].exc = "" /\ RowOK(Rows[i]))
=============================================================================
