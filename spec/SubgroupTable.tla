--------------------------- MODULE SubgroupTable ---------------------------
(***************************************************************************)
(* Subgroup membership and cofactor clearing (C17) on toy curves of order  *)
(* h * r (r prime, gcd(h, r) = 1), over GF(q) and GF(q^2).                 *)
(*                                                                         *)
(* Specification: a point is in the prime-order subgroup iff its order     *)
(* divides r, i.e. [r]P = O; cofactor clearing is P |-> [h_eff]P with      *)
(* h | h_eff.  GroupFacts checks on every toy instance, by enumeration,    *)
(* that this is the textbook picture: #E = h r, the points killed by r are *)
(* exactly the r multiples of one of them, every other point has a         *)
(* non-trivial cofactor component ([r]P # O and [h][r]P = O), and          *)
(* [h_eff]P lands in the subgroup for EVERY point.                         *)
(*                                                                         *)
(* Conformance rows (real subgroup_check / multiply_clear_cofactor_G1/G2,  *)
(* private module copies with curve_order / H_EFF replaced):               *)
(*   sub   [c, P |-> projective triple, r |-> 0/1]                         *)
(*   clear [c, P, r |-> projective triple]                                 *)
(***************************************************************************)
EXTENDS Curve, Json, IOUtils

Rows    == ndJsonDeserialize(IOEnv.TABLE)
AllRows == ndJsonDeserialize(IOEnv.ALLROWS)
Fields  == ndJsonDeserialize(IOEnv.FIELDS)
CurvesJ == ndJsonDeserialize(IOEnv.CURVES)    \* [f, a, b, order, r, h, heff]
Claims  == ndJsonDeserialize(IOEnv.CLAIMS)
Stride  == 64
VARIABLE i

Crv(k) == [F |-> Fields[CurvesJ[k].f], a |-> CurvesJ[k].a, b |-> CurvesJ[k].b]
B2N(b) == IF b THEN 1 ELSE 0
A(C, R) == ProjToAff(C, R)
SM(C, P, n) == MulBits(C, P, Bits(n))

InSubgroup(k, P) == SM(Crv(k), P, CurvesJ[k].r) = INF
Clear(k, P) == SM(Crv(k), P, CurvesJ[k].heff)

RowOK(r) ==
  LET C == Crv(r.c) IN
  CASE r.op = "sub"   -> r.r = B2N(InSubgroup(r.c, A(C, r.P)))
    [] r.op = "clear" -> /\ Len(r.r) = 3 /\ \A j \in 1..3 : IsElem(C.F, r.r[j])
                         /\ A(C, r.r) = Clear(r.c, A(C, r.P))
                         /\ InSubgroup(r.c, A(C, r.r))
    [] OTHER -> FALSE

AllPoints(C) == {INF} \cup {P \in Elem(C.F) \X Elem(C.F) : OnCurve(C, P)}

\* all points of curve k, taken from the rows of its coverage claim (checked to be on the curve and to be as
\* many as the Euler count says) -- enumerating Elem x Elem is out of reach for the larger GF(q^2)
ClaimPoints(k) ==
  LET cl == CHOOSE c \in {Claims[m] : m \in 1..Len(Claims)} : c.c = k /\ c.op = "sub"
  IN {A(Crv(k), AllRows[j].P) : j \in cl.lo..cl.hi}
GroupFacts(k) ==
  LET C   == Crv(k)
      K   == CurvesJ[k]
      pts == ClaimPoints(k)
      sub == {P \in pts : SM(C, P, K.r) = INF}
  IN /\ WellFormed(C.F) /\ C.F.p > 3 /\ C.b # Zero(C.F)
     /\ IsPrime(K.r) /\ K.order = K.h * K.r /\ K.h % K.r # 0 /\ K.h > 1 /\ K.order % 2 = 1
     /\ K.heff % K.h = 0 /\ K.heff % K.r # 0
     /\ \A Pt \in pts : OnCurve(C, Pt)
     /\ Cardinality(pts) = K.order /\ CountPoints(C) = K.order
     /\ Cardinality(sub) = K.r
     /\ \E G \in sub : sub = {SM(C, G, n) : n \in 0..(K.r - 1)}             \* cyclic of order r
     /\ \A P \in pts \ sub : SM(C, SM(C, P, K.r), K.h) = INF                 \* cofactor component
     /\ \A P \in pts : SM(C, SM(C, P, K.heff), K.r) = INF                    \* clearing lands in it
     /\ \A P \in sub : (SM(C, P, K.heff) = INF) <=> (P = INF)                \* ... and is injective on it

ClaimOK(c) ==
  LET C == Crv(c.c) idx == c.lo..c.hi IN
  /\ \A j \in idx : AllRows[j].c = c.c /\ AllRows[j].op = c.op
  /\ LET S == {A(C, AllRows[j].P) : j \in idx} IN
     (\A Pt \in S : OnCurve(C, Pt)) /\ Cardinality(S) = CountPoints(C)

Init == i = 0
Next == \/ i = 0 /\ i' \in 1..(IF Stride < Len(Rows) THEN Stride ELSE Len(Rows))
        \/ i > 0 /\ i + Stride <= Len(Rows) /\ i' = i + Stride
Spec == Init /\ [][Next]_i
CurvesOK == i = 0 => \A k \in 1..Len(CurvesJ) : GroupFacts(k)
ClaimsOK == i = 0 => \A k \in 1..Len(Claims) : ClaimOK(Claims[k])
RowsOK   == i > 0 => (Rows[i].exc = "" /\ RowOK(Rows[i]))
=============================================================================
