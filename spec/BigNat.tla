------------------------------- MODULE BigNat -------------------------------
(***************************************************************************)
(* Natural numbers of arbitrary size as little-endian sequences of limbs   *)
(* in base 2^15 (TLC integers are 32-bit: a limb product plus two limbs    *)
(* stays below 2^31).  A value is NORMAL when it has no trailing zero      *)
(* limb; zero is the empty sequence.  All operators return normal values   *)
(* when given normal values.  This is the arithmetic TLC uses on the       *)
(* library's full-size (254/256/381-bit and longer) integers.              *)
(***************************************************************************)
EXTENDS Integers, Sequences, SequencesExt, TLC

Base == 32768
IsNat(a) == /\ DOMAIN a = 1..Len(a)
            /\ \A k \in 1..Len(a) : a[k] \in 0..(Base - 1)
            /\ (Len(a) > 0 => a[Len(a)] # 0)

RECURSIVE Norm(_)
Norm(a) == IF a = <<>> THEN <<>>
           ELSE IF a[Len(a)] = 0 THEN Norm(SubSeq(a, 1, Len(a) - 1)) ELSE a

Ix(n) == [k \in 1..n |-> k]
Limb(a, k) == IF k <= Len(a) THEN a[k] ELSE 0
MaxI(x, y) == IF x > y THEN x ELSE y

RECURSIVE OfInt(_)
OfInt(n) == IF n = 0 THEN <<>> ELSE <<n % Base>> \o OfInt(n \div Base)      \* n >= 0, a TLC integer
Zero == <<>>
One  == <<1>>

\* comparison: -1, 0, 1
RECURSIVE CmpFrom(_, _, _)
CmpFrom(a, b, k) == IF k = 0 THEN 0
                    ELSE IF a[k] < b[k] THEN 0 - 1
                    ELSE IF a[k] > b[k] THEN 1
                    ELSE CmpFrom(a, b, k - 1)
Cmp(a, b) == IF Len(a) < Len(b) THEN 0 - 1
             ELSE IF Len(a) > Len(b) THEN 1
             ELSE CmpFrom(a, b, Len(a))
Less(a, b) == Cmp(a, b) < 0
Leq(a, b)  == Cmp(a, b) <= 0

Add(a, b) ==
  LET n  == MaxI(Len(a), Len(b))
      st == FoldLeft(LAMBDA acc, k :
                       LET t == Limb(a, k) + Limb(b, k) + acc.c
                       IN [c |-> t \div Base, s |-> Append(acc.s, t % Base)],
                     [c |-> 0, s |-> <<>>], Ix(n))
  IN IF st.c = 0 THEN st.s ELSE Append(st.s, st.c)

\* a - b for a >= b
Sub(a, b) ==
  LET st == FoldLeft(LAMBDA acc, k :
                       LET t == a[k] - Limb(b, k) - acc.c
                       IN IF t < 0 THEN [c |-> 1, s |-> Append(acc.s, t + Base)]
                                   ELSE [c |-> 0, s |-> Append(acc.s, t)],
                     [c |-> 0, s |-> <<>>], Ix(Len(a)))
  IN Norm(st.s)

\* a * d for a limb d
MulLimb(a, d) ==
  IF d = 0 THEN <<>>
  ELSE LET st == FoldLeft(LAMBDA acc, k :
                            LET t == a[k] * d + acc.c
                            IN [c |-> t \div Base, s |-> Append(acc.s, t % Base)],
                          [c |-> 0, s |-> <<>>], Ix(Len(a)))
       IN IF st.c = 0 THEN st.s ELSE Append(st.s, st.c)

ShiftLimbs(a, n) == IF a = <<>> THEN <<>> ELSE [k \in 1..n |-> 0] \o a

Mul(a, b) ==
  IF a = <<>> \/ b = <<>> THEN <<>>
  ELSE FoldLeft(LAMBDA acc, k : Add(acc, ShiftLimbs(MulLimb(b, a[k]), k - 1)), <<>>, Ix(Len(a)))

\* bits, least significant first (normal: no trailing zero bit)
LimbBits(x) == [k \in 1..15 |-> (x \div (2 ^ (k - 1))) % 2]
RECURSIVE TrimBits(_)
TrimBits(s) == IF s = <<>> THEN <<>>
               ELSE IF s[Len(s)] = 0 THEN TrimBits(SubSeq(s, 1, Len(s) - 1)) ELSE s
ToBits(a) == TrimBits(FoldLeft(LAMBDA acc, x : acc \o LimbBits(x), <<>>, a))
FromBits(s) ==
  LET n == (Len(s) + 14) \div 15
  IN Norm([k \in 1..n |->
             FoldLeft(LAMBDA acc, j : acc + (IF 15 * (k - 1) + j <= Len(s)
                                             THEN s[15 * (k - 1) + j] * (2 ^ (j - 1)) ELSE 0),
                      0, Ix(15))])

Double(a) == Add(a, a)
IsOdd(a) == a # <<>> /\ a[1] % 2 = 1

\* a mod n by binary long division (n # 0)
Mod(a, n) ==
  IF Less(a, n) THEN a
  ELSE LET bits == ToBits(a)
       IN FoldLeft(LAMBDA r, k :
                     LET d  == Double(r)
                         r2 == IF bits[Len(bits) + 1 - k] = 1 THEN Add(d, One) ELSE d
                     IN IF Less(r2, n) THEN r2 ELSE Sub(r2, n),
                   <<>>, Ix(Len(bits)))
AddMod(a, b, n) == LET s == Add(a, b) IN IF Less(s, n) THEN s ELSE Sub(s, n)   \* a, b < n
SubMod(a, b, n) == IF Leq(b, a) THEN Sub(a, b) ELSE Sub(Add(a, n), b)          \* a, b < n
MulMod(a, b, n) == Mod(Mul(a, b), n)
NegMod(a, n)    == IF a = <<>> THEN <<>> ELSE Sub(n, a)                         \* a < n

\* quotient and remainder with a witness: a = q n + r, r < n
IsDivMod(a, n, q, r) == Less(r, n) /\ a = Add(Mul(q, n), r)

\* a^e mod n, e given as bits LSB first
RECURSIVE PowModBits(_, _, _)
PowModBits(a, e, n) ==
  IF e = <<>> THEN Mod(One, n)
  ELSE LET h == PowModBits(a, Tail(e), n)
           s == MulMod(h, h, n)
       IN IF Head(e) = 1 THEN MulMod(s, a, n) ELSE s

\* big-endian bytes <-> value
BytesBits(s) ==
  LET n == Len(s) IN
  [k \in 1..(8 * n) |-> (s[n - ((k - 1) \div 8)] \div (2 ^ ((k - 1) % 8))) % 2]
FromBytes(s) == FromBits(TrimBits(BytesBits(s)))
\* exactly n bytes, big-endian (value must fit)
ToBytes(a, n) ==
  LET bits == ToBits(a)
  IN [k \in 1..n |->
        FoldLeft(LAMBDA acc, j :
                   LET pos == 8 * (n - k) + j
                   IN acc + (IF pos <= Len(bits) THEN bits[pos] * (2 ^ (j - 1)) ELSE 0),
                 0, Ix(8))]
FitsBytes(a, n) == Len(ToBits(a)) <= 8 * n
=============================================================================
