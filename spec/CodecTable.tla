----------------------------- MODULE CodecTable -----------------------------
(***************************************************************************)
(* Code -> spec conformance for py_ecc.bls.point_compression and the byte  *)
(* helpers of g2_primitives (C11), run as a private module copy whose      *)
(* constants (q, b, b2, field classes, root tables) are those of the toy   *)
(* instances in CURVES.  One row per call:                                 *)
(*   g1c / g2c  compress      [c, P |-> projective triple, z |-> word(s)]  *)
(*   g1d / g2d  decompress    [c, w | w1,w2, r |-> triple, or <<>> = ValueError] *)
(*   g1rt/ g2rt round trip    [c, P, z, r]                                 *)
(*   g1b / g2b  point->bytes  [c, P, s |-> bytes]                          *)
(*   g1p / g2p  bytes->point  [c, s, r]                                    *)
(***************************************************************************)
EXTENDS ZcashCodec, Json, IOUtils

Rows    == ndJsonDeserialize(IOEnv.TABLE)
AllRows == ndJsonDeserialize(IOEnv.ALLROWS)   \* the unsplit table (coverage claims index it)
Fields  == ndJsonDeserialize(IOEnv.FIELDS)
CurvesJ == ndJsonDeserialize(IOEnv.CURVES)
Claims  == ndJsonDeserialize(IOEnv.CLAIMS)
Stride  == 64
VARIABLE i

Crv(k) == [F |-> Fields[CurvesJ[k].f], a |-> CurvesJ[k].a, b |-> CurvesJ[k].b]
WFP(F, R) == Len(R) = 3 /\ \A k \in 1..3 : IsElem(F, R[k])
A(C, R) == ProjToAff(C, R)

Dec1OK(C, w, r) ==
  IF ClassG1(C, w) = "err" THEN r = <<>>
  ELSE /\ r # <<>> /\ WFP(C.F, r)
       /\ DecodesG1(C, w, A(C, r))
       /\ CompressG1(C, A(C, r)) = w                 \* canonical: re-encoding gives the input
Dec2OK(C, w1, w2, r) ==
  IF ClassG2(C, w1, w2) = "err" THEN r = <<>>
  ELSE /\ r # <<>> /\ WFP(C.F, r)
       /\ DecodesG2(C, w1, w2, A(C, r))
       /\ CompressG2(C, A(C, r)) = <<w1, w2>>

RowOK(r) ==
  LET C == Crv(r.c) IN
  CASE r.op = "g1c"  -> r.z = CompressG1(C, A(C, r.P))
    [] r.op = "g2c"  -> r.z = CompressG2(C, A(C, r.P))
    [] r.op = "g1d"  -> Dec1OK(C, r.w, r.r)
    [] r.op = "g2d"  -> Dec2OK(C, r.w1, r.w2, r.r)
    [] r.op = "g1rt" -> /\ r.z = CompressG1(C, A(C, r.P))
                        /\ r.r # <<>> /\ WFP(C.F, r.r) /\ A(C, r.r) = A(C, r.P)
    [] r.op = "g2rt" -> /\ r.z = CompressG2(C, A(C, r.P))
                        /\ r.r # <<>> /\ WFP(C.F, r.r) /\ A(C, r.r) = A(C, r.P)
    [] r.op = "g1b"  -> Len(r.s) = 48 /\ r.s = BytesOfWord(CompressG1(C, A(C, r.P)))
    [] r.op = "g2b"  -> LET z == CompressG2(C, A(C, r.P)) IN
                        Len(r.s) = 96 /\ r.s = BytesOfWord(z[1]) \o BytesOfWord(z[2])
    \* modular_squareroot_in_FQ2 (documented helper): None (<<>>) for a non-square; otherwise THE root with the larger
    \* imaginary component, the larger real component when the imaginary ones are equal
    [] r.op = "sq2"  -> LET F == C.F IN
                        IF r.v = Zero(F) THEN TRUE      \* not asserted: no curve of odd order has a point with y = 0
                        ELSE IF ~IsSquare(F, r.v) THEN r.r = <<>>
                        ELSE /\ r.r # <<>> /\ IsElem(F, r.r) /\ Sqr(F, r.r) = r.v
                             /\ LET n == Neg(F, r.r) IN r.r[2] > n[2] \/ (r.r[2] = n[2] /\ r.r[1] >= n[1])
    [] r.op = "g1p"  -> Dec1OK(C, WordOfBytes(r.s), r.r)
    [] r.op = "g2p"  -> Dec2OK(C, WordOfBytes(Slice(r.s, 1, 48)), WordOfBytes(Slice(r.s, 49, 96)), r.r)
    [] OTHER -> FALSE

AllPoints(C) == {INF} \cup {P \in Elem(C.F) \X Elem(C.F) : OnCurve(C, P)}
Flags == {0, 1}
ClaimOK(c) ==
  LET C == Crv(c.c) idx == c.lo..c.hi IN
  /\ \A j \in idx : AllRows[j].c = c.c /\ AllRows[j].op = c.op
  /\ CASE c.kind = "points" ->       \* every point of the curve appears: the rows' points are on the curve and
                                    \* there are as many distinct ones as the curve has points (Euler count)
            LET S == {A(C, AllRows[j].P) : j \in idx} IN
            /\ \A Pt \in S : OnCurve(C, Pt)
            /\ Cardinality(S) = CountPoints(C)
            /\ CountPoints(C) = CurvesJ[c.c].order
       [] c.kind = "words1" ->       \* every word with x in 0..c.xmax and every flag combination
            {<<AllRows[j].w.c, AllRows[j].w.b, AllRows[j].w.a, AllRows[j].w.x>> : j \in idx}
              = Flags \X Flags \X Flags \X (0..c.xmax)
       [] c.kind = "words2" ->       \* all x_im, x_re in 0..c.xmax, all flags of word 1, no flags in word 2
            {<<AllRows[j].w1.c, AllRows[j].w1.b, AllRows[j].w1.a, AllRows[j].w1.x, AllRows[j].w2.x>> :
                j \in {k \in idx : NoFlags(AllRows[k].w2)}}
              = Flags \X Flags \X Flags \X (0..c.xmax) \X (0..c.xmax)

\* premises of a toy codec instance: q = 3 mod 8 (the square-root routine of the code), odd group
\* order (no point with y = 0), b # 0
CurveOK(k) ==
  LET C == Crv(k) IN
  /\ WellFormed(C.F) /\ C.F.p % 8 = 3 /\ C.b # Zero(C.F)
  /\ CurvesJ[k].order % 2 = 1
  /\ (C.F.d = 2 => C.F.mc = <<1, 0>>)

Init == i = 0
Next == \/ i = 0 /\ i' \in 1..(IF Stride < Len(Rows) THEN Stride ELSE Len(Rows))
        \/ i > 0 /\ i + Stride <= Len(Rows) /\ i' = i + Stride
Spec == Init /\ [][Next]_i
CurvesOK == i = 0 => \A k \in 1..Len(CurvesJ) : CurveOK(k)
ClaimsOK == i = 0 => \A k \in 1..Len(Claims) : ClaimOK(Claims[k])
RowsOK   == i > 0 => (Rows[i].exc = "" /\ RowOK(Rows[i]))
=============================================================================
