------------------------------ MODULE HkdfBig ------------------------------
(***************************************************************************)
(* KeyGen of the REAL ciphersuites at the real group order (C16): the      *)
(* draft-v4 procedure of Hkdf.tla evaluated over the recorded HMAC / hash  *)
(* graphs, with L = 48 derived from the 255-bit r of StdConstants.tla and  *)
(* OS2IP(OKM) mod r computed by TLC in BigNat.                             *)
(*   row: [M, S, ikm, info, r |-> secret key as limbs, again |-> 0/1]      *)
(***************************************************************************)
EXTENDS Hkdf, StdConstants, Json, IOUtils

Rows   == ndJsonDeserialize(IOEnv.TABLE)
Stride == 4
VARIABLE i

LBig == CeilDiv(3 * Len(ToBits(BlsR)), 16)         \* ceil(1.5 * ceil(log2 r) / 8); r is not a power of two

RECURSIVE KeyGenBigFrom(_, _, _, _, _, _)
KeyGenBigFrom(M, S, salt, ikm, info, tries) ==
  IF tries = 0 THEN [sk |-> Zero, ok |-> FALSE]
  ELSE LET s2  == SaltHash(S, salt)
           prk == IF s2 = NoMac THEN NoMac ELSE Extract(M, s2, Append(ikm, 0))
           okm == IF prk = NoMac THEN NoMac ELSE Expand(M, prk, info \o I2OSPr(LBig, 2), LBig)
       IN IF okm = NoMac THEN [sk |-> Zero, ok |-> FALSE]
          ELSE LET sk == Mod(FromBytes(okm), BlsR) IN
               IF sk # Zero THEN [sk |-> sk, ok |-> TRUE]
               ELSE KeyGenBigFrom(M, S, s2, ikm, info, tries - 1)

RowOK(r) ==
  LET k == KeyGenBigFrom(r.M, r.S, KeygenSalt, r.ikm, r.info, 4) IN
  /\ MacFunctional(r.M.g)
  /\ LBig = 48
  /\ k.ok /\ r.r = k.sk
  /\ Less(Zero, r.r) /\ Less(r.r, BlsR)
  /\ r.again = 1

Init == i = 0
Next == \/ i = 0 /\ i' \in 1..(IF Stride < Len(Rows) THEN Stride ELSE Len(Rows))
        \/ i > 0 /\ i + Stride <= Len(Rows) /\ i' = i + Stride
Spec == Init /\ [][Next]_i
RowsOK == i > 0 => (Rows[i].exc = "" /\ RowOK(Rows[i]))
=============================================================================
