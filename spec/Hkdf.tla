------------------------------- MODULE Hkdf -------------------------------
(***************************************************************************)
(* RFC 5869 HKDF (extract / expand) and the KeyGen procedure of            *)
(* draft-irtf-cfrg-bls-signature-04 section 2.3, over an ABSTRACT HMAC and *)
(* hash (C16).                                                             *)
(*                                                                         *)
(* M is a MAC  [kind |-> "toy"]  (defined here, 32-byte output, computed   *)
(* by TLC) or  [kind |-> "graph", g |-> <<[key, msg, out], ...>>]  (the    *)
(* recorded calls of the real HMAC-SHA256; unknown inputs yield NoMac).    *)
(* S is the salt hash: [kind |-> "toy"] or [kind |-> "graph", g |-> <<[in, *)
(* out], ...>>].                                                           *)
(***************************************************************************)
EXTENDS Bytes, FiniteSets

NoMac == <<0 - 1>>      \* not a byte string
HLen  == 32

Acc(m, s) == FoldLeft(LAMBDA acc, x : (acc * 31 + x + 7) % m, 1, s)
\* toy MAC: 32 bytes spread from two rolling hashes of  key || 0x5c || msg
ToyMac(key, msg) ==
  LET h1 == Acc(65521, key \o <<92>> \o msg)
      h2 == Acc(251, msg \o <<54>> \o key)
  IN [j \in 1..HLen |-> (h1 * j + h2 + (h1 \div 256) * (j % 3)) % 256]
ToySalt(in) == [j \in 1..HLen |-> (Acc(65521, in) * (j + 1) + j) % 256]

MacLookup(g, key, msg) ==
  LET hits == {k \in 1..Len(g) : g[k].key = key /\ g[k].msg = msg}
  IN IF hits = {} THEN NoMac ELSE g[CHOOSE k \in hits : TRUE].out
Mac(M, key, msg) == IF M.kind = "toy" THEN ToyMac(key, msg) ELSE MacLookup(M.g, key, msg)
HLookup(g, in) ==
  LET hits == {k \in 1..Len(g) : g[k].in = in}
  IN IF hits = {} THEN NoMac ELSE g[CHOOSE k \in hits : TRUE].out
SaltHash(S, in) == IF S.kind = "toy" THEN ToySalt(in) ELSE HLookup(S.g, in)

MacFunctional(g) == \A j, k \in 1..Len(g) :
                       (g[j].key = g[k].key /\ g[j].msg = g[k].msg) => g[j].out = g[k].out

(***************************************************************************)
(* RFC 5869                                                                *)
(***************************************************************************)
Extract(M, salt, ikm) == Mac(M, salt, ikm)

CeilDiv(a, b) == (a + b - 1) \div b
RECURSIVE ExpandBlocks(_, _, _, _, _, _)
ExpandBlocks(M, prk, info, i, n, st) ==
  IF i > n \/ st.prev = NoMac THEN st
  ELSE LET t == Mac(M, prk, st.prev \o info \o <<i>>)
       IN ExpandBlocks(M, prk, info, i + 1, n,
                       [prev |-> t, acc |-> IF t = NoMac THEN st.acc ELSE st.acc \o t])
\* defined for L <= 255 * HLen
Expand(M, prk, info, L) ==
  LET st == ExpandBlocks(M, prk, info, 1, CeilDiv(L, HLen), [prev |-> <<>>, acc |-> <<>>])
  IN IF st.prev = NoMac THEN NoMac ELSE Take(st.acc, L)

(***************************************************************************)
(* KeyGen (draft v4):  salt = "BLS-SIG-KEYGEN-SALT-"; repeat               *)
(*   salt = H(salt); PRK = Extract(salt, IKM || 0x00);                     *)
(*   OKM = Expand(PRK, key_info || I2OSP(L, 2), L); SK = OS2IP(OKM) mod r  *)
(* until SK # 0.   L = ceil(3 * ceil(log2(r)) / 16) (48 for BLS12-381).    *)
(* Bounded unrolling: MaxTries attempts (a 0 result beyond that is NoMac). *)
(***************************************************************************)
KeygenSalt == <<66, 76, 83, 45, 83, 73, 71, 45, 75, 69, 89, 71, 69, 78, 45, 83, 65, 76, 84, 45>>
OS2IPmod(s, r) == FoldLeft(LAMBDA acc, x : (acc * 256 + x) % r, 0, s)

RECURSIVE KeyGenFrom(_, _, _, _, _, _, _, _)
KeyGenFrom(M, S, salt, ikm, info, L, r, tries) ==
  IF tries = 0 THEN [sk |-> 0, tries |-> 0, ok |-> FALSE]
  ELSE LET s2  == SaltHash(S, salt)
           prk == IF s2 = NoMac THEN NoMac ELSE Extract(M, s2, Append(ikm, 0))
           okm == IF prk = NoMac THEN NoMac ELSE Expand(M, prk, info \o I2OSPr(L, 2), L)
       IN IF okm = NoMac THEN [sk |-> 0, tries |-> tries, ok |-> FALSE]
          ELSE LET sk == OS2IPmod(okm, r) IN
               IF sk # 0 THEN [sk |-> sk, tries |-> tries, ok |-> TRUE]
               ELSE KeyGenFrom(M, S, s2, ikm, info, L, r, tries - 1)
CeilLog2(n) == CHOOSE k \in 0..31 : 2 ^ k >= n /\ (k = 0 \/ 2 ^ (k - 1) < n)
KeyL(r) == CeilDiv(3 * CeilLog2(r), 16)          \* ceil((1.5 * ceil(log2(r))) / 8)
KeyGen(M, S, ikm, info, r) == KeyGenFrom(M, S, KeygenSalt, ikm, info, KeyL(r), r, 40)
=============================================================================
