------------------------------- MODULE Ecdsa -------------------------------
(***************************************************************************)
(* ECDSA with public-key recovery over a prime-order curve y^2 = x^3 + b   *)
(* of Curve.tla -- the specification of py_ecc.secp256k1's                 *)
(* ecdsa_raw_sign / ecdsa_raw_recover (C06, C19).                          *)
(*                                                                         *)
(* An instance is  E = [p, b, n, gx, gy]  (field prime, coefficient, group *)
(* order, generator).  Points are those of Curve.tla; the library's plain  *)
(* pairs use (0, 0) for the identity.                                      *)
(*                                                                         *)
(* Two layers:                                                             *)
(*   - the MATHEMATICAL definitions (Verifies, RecoverSpec): what the      *)
(*     properties talk about;                                              *)
(*   - the TRANSCRIPTION of what the code computes (SignCode, RecoverCode, *)
(*     including its degenerate behaviour: r = x(kG) is not reduced mod n, *)
(*     inv(k, n) = 1 when n | k and k # 0, no retry for k = 0 / r = 0 /    *)
(*     s = 0).  MC_Ecdsa checks the transcription against the mathematics  *)
(*     on every (d, z, k) / (z, v, r, s) of the toy instances.             *)
(***************************************************************************)
EXTENDS Curve

FieldOf(E) == [p |-> E.p, d |-> 1, mc |-> <<0>>]
CurveOf(E) == [F |-> FieldOf(E), a |-> <<0>>, b |-> <<E.b % E.p>>]
Gen(E)     == <<<<E.gx>>, <<E.gy>>>>

Plain(P)   == IF P = INF THEN <<0, 0>> ELSE <<P[1][1], P[2][1]>>
Unplain(R) == IF R[1] = 0 /\ R[2] = 0 THEN INF ELSE <<<<R[1]>>, <<R[2]>>>>

\* n-fold sum for any natural scalar below 2^31
SMul(E, P, k) == MulBits(CurveOf(E), P, Bits(k))
PSub(C, P, Q) == PAdd(C, P, PNeg(C, Q))

InvN(E, a) == InvP(E.n, a % E.n)         \* mathematical inverse mod the (prime) group order; 0 for 0
Xor(a, b)  == IF a = b THEN 0 ELSE 1

\* the point with x-coordinate x and the parity of y requested by v (even for 27, odd for 28),
\* or INF when x is not the x-coordinate of a curve point  (found by search: a definition,
\* not an algorithm)
Lift(E, x, v) ==
  LET ys == {y \in 0..(E.p - 1) : (y * y) % E.p = (x * x * x + E.b) % E.p /\ y % 2 = (v + 1) % 2}
  IN IF x \notin 0..(E.p - 1) \/ ys = {} THEN INF ELSE <<<<x>>, <<CHOOSE y \in ys : TRUE>>>>

(***************************************************************************)
(* Mathematics                                                             *)
(***************************************************************************)
\* standard ECDSA verification of (r, s) on hash value z for public key Q
Verifies(E, z, r, s, Q) ==
  /\ r % E.n # 0 /\ s % E.n # 0
  /\ LET w  == InvN(E, s)
         u1 == ((z % E.n) * w) % E.n
         u2 == ((r % E.n) * w) % E.n
         X  == PAdd(CurveOf(E), SMul(E, Gen(E), u1), SMul(E, Q, u2))
     IN X # INF /\ X[1][1] % E.n = r % E.n

\* C19: recovery is refused (ERR) exactly for v outside {27, 28}, r or s = 0 mod n, r not an
\* x-coordinate; otherwise it is the unique Q with (r mod n) Q = s R - z G
ERR == <<"err">>
RecoverSpec(E, z, v, r, s) ==
  IF v \notin {27, 28} \/ r % E.n = 0 \/ s % E.n = 0 \/ Lift(E, r, v) = INF THEN ERR
  ELSE LET C == CurveOf(E)
           R == Lift(E, r, v)
           T == PSub(C, SMul(E, R, s % E.n), SMul(E, Gen(E), z % E.n))
       IN SMul(E, T, InvN(E, r))
\* ... and it is characterised without any inverse:
RecoverLaw(E, z, v, r, s, Q) ==
  LET C == CurveOf(E) R == Lift(E, r, v) IN
  SMul(E, Q, r % E.n) = PSub(C, SMul(E, R, s % E.n), SMul(E, Gen(E), z % E.n))

(***************************************************************************)
(* Transcription of the code                                               *)
(***************************************************************************)
InvCode(a, n) == IF a = 0 THEN 0 ELSE IF a % n = 0 THEN 1 ELSE InvP(n, a % n)

SignCode(E, z, d, k) ==
  LET R  == Plain(SMul(E, Gen(E), k % E.n))
      r  == R[1]
      y  == R[2]
      s0 == (InvCode(k, E.n) * ((z + r * d) % E.n)) % E.n
      hi == ~(s0 * 2 < E.n)
  IN <<27 + Xor(y % 2, IF hi THEN 1 ELSE 0), r, IF hi THEN E.n - s0 ELSE s0>>

\* inputs on which ecdsa_raw_sign is the textbook algorithm (outside: see DESIGN section 3)
SignRegular(E, z, d, k) ==
  LET R == Plain(SMul(E, Gen(E), k % E.n)) IN
  /\ k % E.n # 0
  /\ R[1] % E.n # 0 /\ R[1] < E.n
  /\ ((z + R[1] * d) % E.n) # 0

RecoverCode(E, z, v, r, s) ==
  IF v \notin {27, 28} THEN ERR
  ELSE LET p    == E.p
           rhs  == (((r * r) % p) * r + E.b) % p
           beta == PowBits(FieldOf(E), <<rhs>>, Bits((p + 1) \div 4))[1]
           y    == IF Xor(v % 2, beta % 2) = 1 THEN beta ELSE p - beta
       IN IF (rhs - (((y % p) * (y % p)) % p)) % p # 0 \/ r % E.n = 0 \/ s % E.n = 0 THEN ERR
          ELSE LET C  == CurveOf(E)
                   Gz == SMul(E, Gen(E), (E.n - (z % E.n)) % E.n)
                   XY == SMul(E, <<<<r % p>>, <<y % p>>>>, s % E.n)
                   Qr == PAdd(C, Gz, XY)
               IN SMul(E, Qr, InvCode(r, E.n))

(***************************************************************************)
(* Premises on an instance (checked by TLC before anything is concluded)   *)
(***************************************************************************)
InstanceOK(E) ==
  /\ IsPrime(E.p) /\ IsPrime(E.n) /\ E.p % 4 = 3 /\ E.n # E.p /\ E.b % E.p # 0
  /\ OnCurve(CurveOf(E), Gen(E))
  /\ SMul(E, Gen(E), E.n) = INF
  /\ Cardinality({P \in (0..(E.p - 1)) \X (0..(E.p - 1)) :
                    (P[2] * P[2]) % E.p = (P[1] * P[1] * P[1] + E.b) % E.p}) + 1 = E.n
=============================================================================
