---------------------------- MODULE MulRecTrace ----------------------------
(***************************************************************************)
(* Nested calls of the real `multiply` (four curve modules) and            *)
(* `jacobian_multiply` (private secp256k1 copy) recorded with              *)
(* sys.setprofile on toy curves: one row per outermost call, `calls` in    *)
(* call order, each with the raw operand, the scalar and the raw result.   *)
(*   row: [m, c, rep, kind |-> "lsb" | "msb", calls |-> <<[P, n, r]>>]     *)
(* RowsOK  - every nested call is a call of the public function: its       *)
(*   result is the n-fold sum of its operand (Curve.tla).                  *)
(* ModelOK - the call tree is the one of MulRec.tla: the scalar is halved  *)
(*   from call to call, the operand is doubled ("lsb") or kept ("msb"),    *)
(*   an out-of-range scalar costs one reducing call ("msb"), the recursion *)
(*   stops at n <= 1.  Reported, not a violation: another correct          *)
(*   multiplication algorithm is not a defect.                             *)
(***************************************************************************)
EXTENDS Curve, Json, IOUtils

Rows    == ndJsonDeserialize(IOEnv.TABLE)
Fields  == ndJsonDeserialize(IOEnv.FIELDS)
CurvesJ == ndJsonDeserialize(IOEnv.CURVES)
Stride  == 16
VARIABLE i

Crv(k) == [F |-> Fields[CurvesJ[k].f], a |-> CurvesJ[k].a, b |-> CurvesJ[k].b]
Abs(C, rep, R) ==
  CASE rep = "aff"   -> R
    [] rep = "proj"  -> ProjToAff(C, R)
    [] rep = "jac"   -> JacToAff(C, R)
Times(C, k, P, n) == MulBits(C, P, Bits(IF n >= 0 THEN n ELSE n % CurvesJ[k].order))

RowOK(r) ==
  LET C == Crv(r.c) IN
  /\ Len(r.calls) >= 1
  /\ \A k \in 1..Len(r.calls) :
       LET e == r.calls[k] IN Abs(C, r.rep, e.r) = Times(C, r.c, Abs(C, r.rep, e.P), e.n)

RowModelOK(r) ==
  LET C == Crv(r.c)
      N == CurvesJ[r.c].order
      s == r.calls
      \* "msb": a scalar outside 0..N-1 is reduced by one extra call on the same operand
      red == r.kind = "msb" /\ (s[1].n < 0 \/ s[1].n >= N) /\ Abs(C, r.rep, s[1].P) # INF
      b == IF red THEN 2 ELSE 1
  IN /\ (red => Len(s) >= 2 /\ s[2].n = s[1].n % N /\ s[2].P = s[1].P)
     /\ \A k \in b..(Len(s) - 1) :
          /\ s[k].n > 1
          /\ s[k + 1].n = s[k].n \div 2
          /\ IF r.kind = "lsb" THEN Abs(C, r.rep, s[k + 1].P) = PDouble(C, Abs(C, r.rep, s[k].P))
             ELSE s[k + 1].P = s[k].P
     /\ (s[Len(s)].n <= 1 \/ (r.kind = "msb" /\ Abs(C, r.rep, s[Len(s)].P) = INF))

TInit == i = 0
TNext == \/ i = 0 /\ i' \in 1..(IF Stride < Len(Rows) THEN Stride ELSE Len(Rows))
         \/ i > 0 /\ i + Stride <= Len(Rows) /\ i' = i + Stride
TSpec == TInit /\ [][TNext]_i
RowsOK  == i > 0 => (Rows[i].exc = "" /\ RowOK(Rows[i]))
ModelOK == i > 0 => (Rows[i].exc = "" => RowModelOK(Rows[i]))
=============================================================================
