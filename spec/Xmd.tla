-------------------------------- MODULE Xmd --------------------------------
(***************************************************************************)
(* RFC 9380 section 5.3.1 expand_message_xmd and section 5.2 hash_to_field *)
(* over an ABSTRACT hash function (C15).                                   *)
(*                                                                         *)
(* A hash is a record  H = [kind, b, s, ...]:                              *)
(*   kind = "toy"   : a hash defined here (TLC computes it), digest size b *)
(*                    in {1, 2}, block size s;                             *)
(*   kind = "graph" : an uninterpreted function given by its recorded      *)
(*                    graph g = <<[in, out], ...>> (every digest the real  *)
(*                    hashlib object produced during the call).  Applying  *)
(*                    it to an input that was never hashed yields NoHash,  *)
(*                    so a run that skipped a prescribed hash is rejected. *)
(***************************************************************************)
EXTENDS Bytes, FiniteSets

NoHash == <<0 - 1>>     \* not a byte string (comparable with byte strings, equal to none)

\* toy hash: polynomial rolling hash modulo 65521 (2-byte digest) or 251 (1-byte digest)
ToyAcc(m, s) == FoldLeft(LAMBDA acc, x : (acc * 31 + x + 7) % m, 1, s)
ToyHash(b, s) == IF b = 1 THEN <<ToyAcc(251, s)>> ELSE I2OSPr(ToyAcc(65521, s), 2)

Lookup(g, in) ==
  LET hits == {k \in 1..Len(g) : g[k].in = in}
  IN IF hits = {} THEN NoHash ELSE g[CHOOSE k \in hits : TRUE].out
\* the graph must be a function: equal inputs, equal outputs
Functional(g) == \A j, k \in 1..Len(g) : g[j].in = g[k].in => g[j].out = g[k].out

Apply(H, in) == IF H.kind = "toy" THEN ToyHash(H.b, in) ELSE Lookup(H.g, in)

CeilDiv(a, b) == (a + b - 1) \div b

\* abort conditions of section 5.3.1
Aborts(H, dst, len) == CeilDiv(len, H.b) > 255 \/ len > 65535 \/ Len(dst) > 255

RECURSIVE Blocks(_, _, _, _, _, _)
\* b_1 .. b_ell given b_0; acc = b_1 || ... || b_(i-1), prev = b_(i-1)
Blocks(H, b0, dstp, i, ell, st) ==
  IF i > ell \/ st.prev = NoHash THEN st
  ELSE LET in == (IF i = 1 THEN b0 ELSE StrXor(b0, st.prev)) \o <<i>> \o dstp
           bi == Apply(H, in)
       IN Blocks(H, b0, dstp, i + 1, ell,
                 [prev |-> bi, acc |-> IF bi = NoHash THEN st.acc ELSE st.acc \o bi])

Expand(H, msg, dst, len) ==
  LET ell  == CeilDiv(len, H.b)
      dstp == Append(dst, Len(dst))
      b0   == Apply(H, Rep(0, H.s) \o msg \o I2OSPr(len, 2) \o <<0>> \o dstp)
      st   == Blocks(H, b0, dstp, 1, ell, [prev |-> <<>>, acc |-> <<>>])
  IN IF b0 = NoHash \/ st.prev = NoHash THEN NoHash ELSE Take(st.acc, len)

(***************************************************************************)
(* hash_to_field (section 5.2) with L = 64 for a field of characteristic p *)
(* and extension degree m: element i, coordinate j is                      *)
(*   OS2IP(uniform[L (j + i m) .. +L)) mod p.                              *)
(* p small enough for TLC here (p < 2^23, Horner reduction); the full-size *)
(* prime is handled in the BigNat layer.                                   *)
(***************************************************************************)
OS2IPmod(s, p) == FoldLeft(LAMBDA acc, x : (acc * 256 + x) % p, 0, s)
HashToField(H, msg, dst, count, m, p) ==
  LET L == 64
      u == Expand(H, msg, dst, count * m * L)
  IN IF u = NoHash THEN NoHash
     ELSE [i \in 1..count |-> [j \in 1..m |->
             OS2IPmod(Slice(u, L * ((j - 1) + (i - 1) * m) + 1, L * ((j - 1) + (i - 1) * m) + L), p)]]
=============================================================================
