---------------------------- MODULE FieldMachine ----------------------------
(***************************************************************************)
(* A register machine over one finite field of Field.tla: the abstract     *)
(* machine behind C08 / C14.  Registers hold field elements; every action  *)
(* is one operator application of py_ecc's field classes (`+ - * / ** neg  *)
(* inv`, the int-mixing forms, and the observations `==` and sgn0).        *)
(*                                                                         *)
(* Used in two ways:                                                       *)
(*  (A) exhaustive / bounded model checking: the invariants and action     *)
(*      properties below are the field laws on everything reachable;       *)
(*  (B) spec -> code: `tlc -simulate` behaviours (straight-line programs,  *)
(*      recorded in `hist` together with the value the SPEC assigns to the *)
(*      destination register) are replayed into the reference AND the      *)
(*      optimized class; both must equal the spec value after every step.  *)
(***************************************************************************)
EXTENDS Curve, Json     \* Curve for InvF / Div (Fermat inverse in any field of Field.tla)

CONSTANTS F,        \* field descriptor [p, d, mc]
          Seeds,    \* set of initial register contents (element tuples)
          NReg,     \* number of registers
          Ints,     \* set of integer operands (negative, >= p, canonical)
          Exps,     \* set of exponents as bit tuples, LSB first
          Depth     \* length of the behaviours dumped for replay

VARIABLES regs, hist, start
vars == <<regs, hist, start>>

R == 1..NReg
B2N(b) == IF b THEN 1 ELSE 0

Ev(op, d, a, b, k, n, v) == [op |-> op, d |-> d, a |-> a, b |-> b, k |-> k, n |-> n, v |-> v]

Set(d, v, e) == /\ regs' = [regs EXCEPT ![d] = v]
                /\ hist' = Append(hist, e)
                /\ UNCHANGED start
Obs(e) == /\ UNCHANGED <<regs, start>>
          /\ hist' = Append(hist, e)

AddA(d, a, b) == LET v == Add(F, regs[a], regs[b]) IN Set(d, v, Ev("add", d, a, b, 0, <<>>, v))
SubA(d, a, b) == LET v == Sub(F, regs[a], regs[b]) IN Set(d, v, Ev("sub", d, a, b, 0, <<>>, v))
MulA(d, a, b) == LET v == Mul(F, regs[a], regs[b]) IN Set(d, v, Ev("mul", d, a, b, 0, <<>>, v))
\* division by zero yields zero (inv0 convention of the library)
DivA(d, a, b) == LET v == Div(F, regs[a], regs[b]) IN Set(d, v, Ev("div", d, a, b, 0, <<>>, v))
NegA(d, a)    == LET v == Neg(F, regs[a]) IN Set(d, v, Ev("neg", d, a, 0, 0, <<>>, v))
InvA(d, a)    == LET v == InvF(F, regs[a]) IN Set(d, v, Ev("inv", d, a, 0, 0, <<>>, v))
PowA(d, a, n) == LET v == PowBits(F, regs[a], n) IN Set(d, v, Ev("pow", d, a, 0, 0, n, v))
\* integer operands act as their residues
IMulA(d, a, k)  == LET v == ScalarMul(F, regs[a], k) IN Set(d, v, Ev("imul", d, a, 0, k, <<>>, v))
IRMulA(d, a, k) == LET v == ScalarMul(F, regs[a], k) IN Set(d, v, Ev("irmul", d, a, 0, k, <<>>, v))
IDivA(d, a, k)  == LET v == Div(F, regs[a], OfInt(F, k)) IN Set(d, v, Ev("idiv", d, a, 0, k, <<>>, v))
\* the remaining int forms exist in the prime-field classes only
IAddA(d, a, k)  == F.d = 1 /\ LET v == Add(F, regs[a], OfInt(F, k)) IN Set(d, v, Ev("iadd", d, a, 0, k, <<>>, v))
IRAddA(d, a, k) == F.d = 1 /\ LET v == Add(F, OfInt(F, k), regs[a]) IN Set(d, v, Ev("iradd", d, a, 0, k, <<>>, v))
ISubA(d, a, k)  == F.d = 1 /\ LET v == Sub(F, regs[a], OfInt(F, k)) IN Set(d, v, Ev("isub", d, a, 0, k, <<>>, v))
IRSubA(d, a, k) == F.d = 1 /\ LET v == Sub(F, OfInt(F, k), regs[a]) IN Set(d, v, Ev("irsub", d, a, 0, k, <<>>, v))
IRDivA(d, a, k) == F.d = 1 /\ LET v == Div(F, OfInt(F, k), regs[a]) IN Set(d, v, Ev("irdiv", d, a, 0, k, <<>>, v))
\* observations
EqA(a, b)  == Obs(Ev("eq", 0, a, b, 0, <<>>, <<B2N(regs[a] = regs[b])>>))
NeA(a, b)  == Obs(Ev("ne", 0, a, b, 0, <<>>, <<B2N(regs[a] # regs[b])>>))
Sgn0A(a)   == Obs(Ev("sgn0", 0, a, 0, 0, <<>>, <<Sgn0(F, regs[a])>>))

Init == /\ regs \in [R -> Seeds]
        /\ hist = <<>>
        /\ start = regs

Next == \/ \E d, a, b \in R : AddA(d, a, b) \/ SubA(d, a, b) \/ MulA(d, a, b) \/ DivA(d, a, b)
        \/ \E d, a \in R : NegA(d, a) \/ InvA(d, a)
        \/ \E d, a \in R, n \in Exps : PowA(d, a, n)
        \/ \E d, a \in R, k \in Ints :
              \/ IMulA(d, a, k) \/ IRMulA(d, a, k) \/ IDivA(d, a, k)
              \/ IAddA(d, a, k) \/ IRAddA(d, a, k) \/ ISubA(d, a, k) \/ IRSubA(d, a, k)
              \/ IRDivA(d, a, k)
        \/ \E a, b \in R : EqA(a, b) \/ NeA(a, b)
        \/ \E a \in R : Sgn0A(a)

Spec == Init /\ [][Next]_vars

(***************************************************************************)
(* Properties (C08): canonical form is an invariant; the field laws hold   *)
(* on every reachable register file; each step obeys its defining          *)
(* equation (division and inversion by multiplication, exponentiation by   *)
(* the n-fold product for the exponents small enough to unfold).           *)
(***************************************************************************)
TypeOK == \A r \in R : IsElem(F, regs[r])

Laws ==
  \A x \in R, y \in R, z \in R :
    LET a == regs[x] b == regs[y] c == regs[z] IN
    /\ Add(F, a, b) = Add(F, b, a)
    /\ Mul(F, a, b) = Mul(F, b, a)
    /\ Add(F, Add(F, a, b), c) = Add(F, a, Add(F, b, c))
    /\ Mul(F, Mul(F, a, b), c) = Mul(F, a, Mul(F, b, c))
    /\ Mul(F, a, Add(F, b, c)) = Add(F, Mul(F, a, b), Mul(F, a, c))
    /\ Add(F, a, Zero(F)) = a /\ Mul(F, a, One(F)) = a
    /\ Add(F, a, Neg(F, a)) = Zero(F)
    /\ Sub(F, a, b) = Add(F, a, Neg(F, b))
    /\ (a # Zero(F) => Mul(F, a, InvF(F, a)) = One(F))
    /\ InvF(F, Zero(F)) = Zero(F)
    /\ (b # Zero(F) => Mul(F, Div(F, a, b), b) = a)

BitsVal(n) == FoldLeft(LAMBDA acc, i : acc + (IF n[i] = 1 THEN 2 ^ (i - 1) ELSE 0), 0, Idx(1, Len(n)))

StepLaw ==
  hist' # hist =>
    LET e == hist'[Len(hist')] IN
    /\ (e.op = "div" /\ regs[e.b] # Zero(F) => Mul(F, e.v, regs[e.b]) = regs[e.a])
    /\ (e.op = "div" /\ regs[e.b] = Zero(F) => e.v = Zero(F))
    /\ (e.op = "inv" => IsInv(F, regs[e.a], e.v))
    /\ (e.op = "pow" /\ Len(e.n) <= 10 => e.v = PowNat(F, regs[e.a], BitsVal(e.n)))
    /\ (e.op = "idiv" /\ e.k % F.p # 0 => ScalarMul(F, e.v, e.k) = regs[e.a])
    /\ (e.op \in {"eq"} => (e.v[1] = 1) = (Sub(F, regs[e.a], regs[e.b]) = Zero(F)))
StepLawP == [][StepLaw]_vars

\* spec -> code: dump every behaviour of length Depth as JSON (one line per behaviour)
Dump == Len(hist) # Depth \/ PrintT(ToJson([start |-> start, hist |-> hist]))
\* bounded exhaustive exploration
Bound == Len(hist) <= Depth
\* exhaustive mode hides the history: the reachable register files are then a finite graph
RegView == regs
=============================================================================
