----------------------------- MODULE RecoverBig -----------------------------
(***************************************************************************)
(* Full-size conformance of ecdsa_raw_recover (C19) with RecoverSpec of    *)
(* Ecdsa.tla, over BigNat with the SEC 2 parameters of StdConstants.tla.   *)
(*   refused (ValueError) exactly when  v is not 27 / 28,  r = 0 or s = 0  *)
(*   (mod N),  or r is not the x-coordinate of a curve point;              *)
(*   otherwise the returned Q satisfies (r mod N) Q = s R - z G for the    *)
(*   point R = (r, y) whose y has the parity requested by v.               *)
(* Whether r^3 + 7 is a square mod P is settled by a witness verified by   *)
(* multiplication: w^2 = r^3 + 7 (square; then y is w or P - w), or        *)
(* w^2 = -(r^3 + 7) # 0 (non-square, since P = 3 mod 4).  The defining     *)
(* equation is checked on the concrete points: the harness evaluates both  *)
(* sides with the library's multiply / add (decided by C18) on the Q the   *)
(* function returned and on R = (r, y), and interns the results as ids.    *)
(*  row: [h, v, r, s, w, sq, y |-> the y of R, res |-> 0 refused / 1       *)
(*        returned, lhs, rhs |-> ids of (r mod N) Q and s R + (N - z) G,   *)
(*        rn, sn, zn |-> the scalars used (r mod N, s mod N, (N - z) mod N)]*)
(***************************************************************************)
EXTENDS StdConstants, Json, IOUtils

Rows   == ndJsonDeserialize(IOEnv.TABLE)
Stride == 8
VARIABLE i

PP == SecpP
NN == SecpN
Par(a) == IF a = <<>> THEN 0 ELSE a[1] % 2
Rhs(x) == AddMod(MulMod(MulMod(x, x, PP), x, PP), N(7), PP)

RowOK(r) ==
  LET z == FromBytes(r.h)
      g == Rhs(r.r)
      refuse == \/ r.v \notin {27, 28}
                \/ Mod(r.r, NN) = Zero \/ Mod(r.s, NN) = Zero
                \/ r.sq = 0
  IN /\ Less(r.r, PP)                                               \* the property's domain: 0 <= r < P
     /\ IsNat(r.w) /\ Less(r.w, PP)
     /\ IF r.sq = 1 THEN MulMod(r.w, r.w, PP) = g
        ELSE MulMod(r.w, r.w, PP) = NegMod(g, PP) /\ g # Zero        \* -g is a square, g # 0: g is not
     /\ Mod(PP, N(4)) = N(3)
     /\ IF refuse THEN r.res = 0
        ELSE /\ r.res = 1
             /\ (r.y = r.w \/ r.y = NegMod(r.w, PP))                 \* y is a square root of r^3 + 7 ...
             /\ Par(r.y) = (IF r.v = 27 THEN 0 ELSE 1)              \* ... of the requested parity
             /\ r.rn = Mod(r.r, NN) /\ r.sn = Mod(r.s, NN) /\ r.zn = SubMod(Zero, Mod(z, NN), NN)
             /\ r.lhs = r.rhs                                        \* (r mod N) Q = s R - z G

Init == i = 0
Next == \/ i = 0 /\ i' \in 1..(IF Stride < Len(Rows) THEN Stride ELSE Len(Rows))
        \/ i > 0 /\ i + Stride <= Len(Rows) /\ i' = i + Stride
Spec == Init /\ [][Next]_i
RowsOK == i > 0 => (Rows[i].exc = "" /\ RowOK(Rows[i]))
=============================================================================
