----------------------------- MODULE PolyEuclid -----------------------------
(***************************************************************************)
(* The polynomial extended-Euclid inversion loop of FQP.inv (reference     *)
(* class, py_ecc/fields/field_elements.py, and optimized class,            *)
(* optimized_field_elements.py) together with py_ecc.utils.deg and the     *)
(* library's "rounded" polynomial division, as a STEP machine: one action  *)
(* per loop iteration (C08 / C14 depth).                                   *)
(*                                                                         *)
(* Polynomials over GF(p) are tuples of D + 1 coefficients in 0..p-1, low  *)
(* degree first (index k <-> w^(k-1)); F is a Field.tla descriptor.        *)
(*                                                                         *)
(*   Start:  lm := 1, hm := 0, low := x, high := m(w) = w^D + sum mc_i w^i *)
(*   Step:   deg(low) > 0:  r := DivCode(high, low);                       *)
(*           nm := hm - lm r, new := high - low r  (terms of degree <= D); *)
(*           (lm, low, hm, high) := (nm, new, lm, low)                     *)
(*   Exit:   deg(low) = 0:  result lm[0..D-1] / low[0]   (0 if low[0] = 0) *)
(*                                                                         *)
(* DivCode is what the CODE computes (poly_rounded_div /                   *)
(* optimized_poly_rounded_div): the leading quotient coefficient is exact, *)
(* the elimination step subtracts o[c] instead of o[i] * b[c], so r is in  *)
(* general NOT the Euclidean quotient and deg(new) < deg(low) may fail;    *)
(* when deg(high) < deg(low) the quotient is 0 and the step is a swap.     *)
(* The spec models that behaviour (it is deliberate modelling of what the  *)
(* code does, not the textbook algorithm) and TLC shows that inversion is  *)
(* nevertheless right:                                                     *)
(*   LoopInv    lm x = low and hm x = high  modulo (m(w), p), in every     *)
(*              loop state - true for ANY r provided no term of degree > D *)
(*              is dropped (NoTruncation, checked as well);                *)
(*   Decreases  2 (deg low + deg high) + [deg high < deg low] strictly     *)
(*              decreases (termination; also as liveness under WF);        *)
(*   ResultOK   res x = 1 for every x # 0, res = 0 for x = 0.              *)
(* (A) MC_PolyEuclid: exhaustive over every element of the given fields.   *)
(* (C) PolyEuclidTrace validates the loop states RECORDED from the real    *)
(*     methods (sys.settrace) against AbstractStep / LoopInv / the result, *)
(*     and reports whether each recorded quotient is DivCode's.            *)
(***************************************************************************)
EXTENDS Field

PIdx(F)   == 1..(F.d + 1)
PZero(F)  == [k \in PIdx(F) |-> 0]
POne(F)   == [k \in PIdx(F) |-> IF k = 1 THEN 1 ELSE 0]
\* an element (D coefficients) as a polynomial of D + 1 coefficients; the modulus polynomial
Lift(F, x) == [k \in PIdx(F) |-> IF k <= F.d THEN x[k] ELSE 0]
ModPoly(F) == [k \in PIdx(F) |-> IF k <= F.d THEN F.mc[k] ELSE 1]

\* py_ecc.utils.deg:  d = len(p) - 1; while p[d] == 0 and d: d -= 1
RECURSIVE DegFrom(_, _)
DegFrom(a, k) == IF k = 1 \/ a[k] # 0 THEN k - 1 ELSE DegFrom(a, k - 1)
Deg(a) == DegFrom(a, Len(a))

(***************************************************************************)
(* The code's division.  a, b: D + 1 coefficients, b # 0 at its degree.    *)
(*   for i in dega-degb .. 0 (downwards):                                  *)
(*       o[i] += temp[degb + i] / b[degb]                                  *)
(*       for c in 0..degb: temp[c + i] -= o[c]                             *)
(* returned padded with zeros to D + 1 coefficients (inv pads r).          *)
(***************************************************************************)
RECURSIVE DivLoop(_, _, _, _, _, _)
DivLoop(p, degb, binv, i, temp, o) ==
  IF i < 0 THEN o
  ELSE LET n  == Len(temp)
           o2 == TLCEval([o EXCEPT ![i + 1] = (o[i + 1] + temp[degb + i + 1] * binv) % p])
           t2 == TLCEval([k \in 1..n |-> IF k - 1 >= i /\ k - 1 <= i + degb
                                          THEN (temp[k] - o2[k - i]) % p ELSE temp[k]])
       IN DivLoop(p, degb, binv, i - 1, t2, o2)
DivCode(F, a, b) ==
  LET dega == Deg(a) degb == Deg(b) IN
  DivLoop(F.p, degb, InvP(F.p, b[degb + 1]), dega - degb, a, PZero(F))

\* product truncated to degree <= D:  out[k] = sum_{i + j = k} a[i] r[j]   (what the double loop of inv computes)
TruncMul(F, a, r) ==
  [k \in PIdx(F) |-> FoldLeft(LAMBDA acc, i : (acc + a[i] * r[k + 1 - i]) % F.p, 0, Idx(1, k))]
PSub(F, a, b) == [k \in PIdx(F) |-> (a[k] - b[k]) % F.p]
\* the full product has no term of degree > D
NoTrunc(F, a, r) == Deg(a) + Deg(r) <= F.d \/ a = PZero(F) \/ r = PZero(F)

\* one iteration with quotient r (ANY r: the abstract extended-Euclid step)
AbstractStep(F, r, l1, h1, lo1, hi1, l2, h2, lo2, hi2) ==
  /\ l2  = PSub(F, h1, TruncMul(F, l1, r))
  /\ lo2 = PSub(F, hi1, TruncMul(F, lo1, r))
  /\ h2 = l1 /\ hi2 = lo1

\* a polynomial of D + 1 coefficients reduced modulo m(w): an element
Reduce(F, a) == PolyRem(F, a)
\* lm * x mod (m, p) for a polynomial lm (D + 1 coefficients) and an element x
MulElem(F, a, x) ==
  LET hi == a[F.d + 1]                   \* a = a_lo + hi w^D,  w^D = -mc
      lo == [k \in 1..F.d |-> a[k]]
      wd == [k \in 1..F.d |-> (0 - F.mc[k]) % F.p]
  IN Add(F, Mul(F, lo, x), Mul(F, ScalarMul(F, wd, hi), x))
Congruent(F, a, x, b) == MulElem(F, a, x) = Reduce(F, b)

ResultOf(F, l, lo) ==
  IF lo[1] = 0 THEN Zero(F)
  ELSE ScalarMul(F, [k \in 1..F.d |-> l[k]], InvP(F.p, lo[1]))

Measure(lo, hi) == 2 * (Deg(lo) + Deg(hi)) + (IF Deg(hi) < Deg(lo) THEN 1 ELSE 0)
=============================================================================
