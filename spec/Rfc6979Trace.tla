---------------------------- MODULE Rfc6979Trace ----------------------------
(***************************************************************************)
(* Code -> spec conformance of py_ecc.secp256k1.deterministic_generate_k   *)
(* with the HMAC-DRBG call structure of RFC 6979 section 3.2 (steps b-h,   *)
(* first candidate), over an UNINTERPRETED HMAC: the recorder logs every   *)
(* hmac.new(key, msg, sha256) call of the real function with its output;   *)
(* this spec requires that exactly the prescribed calls were made, each    *)
(* with the prescribed key and message (byte-level expressions over the    *)
(* earlier outputs, the 32-byte key x and the hash bytes h1 exactly as     *)
(* given), and that the returned nonce is the last output read big-endian. *)
(* (HMAC-SHA256 itself is hashlib's, not py_ecc's.)                        *)
(*   row: [h |-> hash bytes, x |-> key bytes, calls |-> <<[key, msg, out,  *)
(*         alg]>>, k |-> nonce as 32 big-endian bytes, det |-> 0/1]        *)
(***************************************************************************)
EXTENDS Bytes, Json, IOUtils

Rows   == ndJsonDeserialize(IOEnv.TABLE)
Stride == 16
VARIABLE i

V0 == Rep(1, 32)
K0 == Rep(0, 32)

RowOK(r) ==
  LET c == r.calls IN
  /\ Len(c) = 5
  /\ \A j \in 1..5 : c[j].alg = "sha256" /\ Len(c[j].out) = 32
  /\ c[1].key = K0     /\ c[1].msg = V0 \o <<0>> \o r.x \o r.h         \* K = HMAC_K(V || 0x00 || x || h1)
  /\ c[2].key = c[1].out /\ c[2].msg = V0                             \* V = HMAC_K(V)
  /\ c[3].key = c[1].out /\ c[3].msg = c[2].out \o <<1>> \o r.x \o r.h  \* K = HMAC_K(V || 0x01 || x || h1)
  /\ c[4].key = c[3].out /\ c[4].msg = c[2].out                       \* V = HMAC_K(V)
  /\ c[5].key = c[3].out /\ c[5].msg = c[4].out                       \* T = HMAC_K(V)
  /\ r.k = c[5].out                                                   \* k = bits2int(T)
  /\ r.det = 1                                                        \* a second call returned the same nonce

Init == i = 0
Next == \/ i = 0 /\ i' \in 1..(IF Stride < Len(Rows) THEN Stride ELSE Len(Rows))
        \/ i > 0 /\ i + Stride <= Len(Rows) /\ i' = i + Stride
Spec == Init /\ [][Next]_i
\* an exception where a value is specified is a rejected row (exc is "" when none was raised)
RowsOK   == i > 0 => (Rows[i].exc = "" /\ RowOK(Rows[i]))
=============================================================================
