------------------------------- MODULE MulRec -------------------------------
(***************************************************************************)
(* The recursive double-and-add of `multiply` as a STEP machine over an    *)
(* abstract cyclic group Z_M (an element is its logarithm; + is addition   *)
(* mod M): one action per recursive call / per return (C07, C18 depth).    *)
(*                                                                         *)
(* Kind "lsb" - the four curve modules:                                    *)
(*     multiply(pt, n):  n = 0 -> O;  n = 1 -> pt;                         *)
(*                       even  -> multiply(double(pt), n / 2)              *)
(*                       odd   -> add(multiply(double(pt), n // 2), pt)    *)
(*   Going down, the base point is doubled and the points to be added on   *)
(*   the way back are remembered (`pend`, the pending frames of the call   *)
(*   stack); going up they are added.                                      *)
(* Kind "msb" - secp256k1.jacobian_multiply:                               *)
(*     n = 0 or a = O -> O;  n = 1 -> a;  n < 0 or n >= N -> (a, n mod N)  *)
(*     even -> double(jm(a, n / 2));  odd -> add(double(jm(a, n // 2)), a) *)
(*   Going down only n is halved (`pend` remembers the parities); going up *)
(*   the accumulator is doubled and a is added for an odd frame.           *)
(*                                                                         *)
(* Invariants (checked for every pt0 in Z_M and every n0 in NMin..NMax):   *)
(*   DownInv  n pt + sum(pend) = n0 pt0      (lsb)                         *)
(*            the frames of pend spell the low bits of n0' (msb)           *)
(*   UpInv    what is still to be done to acc gives n0 pt0                 *)
(*   ResultOK the returned element is n0 pt0 (n0 mod M for "msb", which    *)
(*            is also defined for negative n0 and n0 >= M = N)             *)
(*   Depth    the call stack never exceeds the bit length of the scalar    *)
(*   Terminates (liveness under weak fairness)                             *)
(* MulRecTrace.tla validates the nested calls RECORDED from the real       *)
(* functions (sys.setprofile) on toy curves against Curve.tla.             *)
(***************************************************************************)
EXTENDS Integers, Sequences, TLC

CONSTANTS M,        \* order of the abstract cyclic group (for "msb": also the N of the scalar reduction)
          NMin, NMax,
          Kind      \* "lsb" | "msb"

VARIABLES phase, pt0, n0, pt, n, pend, acc
vars == <<phase, pt0, n0, pt, n, pend, acc>>

RECURSIVE BitLen(_)
BitLen(k) == IF k <= 0 THEN 0 ELSE 1 + BitLen(k \div 2)
RECURSIVE Sum(_)
Sum(s) == IF s = <<>> THEN 0 ELSE Head(s) + Sum(Tail(s))
Front(s) == SubSeq(s, 1, Len(s) - 1)
Last(s)  == s[Len(s)]

Init == /\ phase = "start" /\ pt0 = 0 /\ n0 = 0 /\ pt = 0 /\ n = 0 /\ pend = <<>> /\ acc = 0

Start == /\ phase = "start"
         /\ \E p \in 0..(M - 1) : \E k \in NMin..NMax :
              /\ pt0' = p /\ n0' = k /\ pt' = p
              \* "msb": the out-of-range scalar is reduced by one more call before the recursion proper
              /\ n' = IF Kind = "msb" /\ (k < 0 \/ k >= M) THEN k % M ELSE k
         /\ phase' = "down" /\ pend' = <<>> /\ acc' = 0

\* one recursive call
Down == /\ phase = "down" /\ n > 1 /\ ~(Kind = "msb" /\ pt = 0)
        /\ IF Kind = "lsb"
           THEN /\ pend' = IF n % 2 = 1 THEN Append(pend, pt) ELSE pend
                /\ pt' = (2 * pt) % M
           ELSE /\ pend' = Append(pend, n % 2)
                /\ pt' = pt
        /\ n' = n \div 2
        /\ UNCHANGED <<phase, pt0, n0, acc>>

\* the innermost call returns
Bottom == /\ phase = "down" /\ (n <= 1 \/ (Kind = "msb" /\ pt = 0))
          /\ acc' = IF n = 0 \/ (Kind = "msb" /\ pt = 0) THEN 0 ELSE pt
          /\ phase' = "up"
          /\ UNCHANGED <<pt0, n0, pt, n, pend>>

\* one return
Up == /\ phase = "up" /\ pend # <<>>
      /\ IF Kind = "lsb"
         THEN acc' = (acc + Last(pend)) % M
         ELSE acc' = (2 * acc + Last(pend) * pt) % M
      /\ pend' = Front(pend)
      /\ UNCHANGED <<phase, pt0, n0, pt, n>>

Done == /\ phase = "up" /\ pend = <<>> /\ phase' = "done" /\ UNCHANGED <<pt0, n0, pt, n, pend, acc>>

Next == Start \/ Down \/ Bottom \/ Up \/ Done
Spec == Init /\ [][Next]_vars /\ WF_vars(Down) /\ WF_vars(Bottom) /\ WF_vars(Up) /\ WF_vars(Done)

Target == IF Kind = "msb" THEN ((n0 % M) * pt0) % M ELSE (n0 * pt0) % M

\* value of the bits remembered in pend (msb): pend[1] is the lowest bit
RECURSIVE BitsVal(_)
BitsVal(s) == IF s = <<>> THEN 0 ELSE Head(s) + 2 * BitsVal(Tail(s))
Pow2(k) == 2 ^ k

DownInv == phase = "down" =>
  IF Kind = "lsb" THEN (n * pt + Sum(pend)) % M = Target
  ELSE pt = pt0 /\ n * Pow2(Len(pend)) + BitsVal(pend) = (IF n0 < 0 \/ n0 >= M THEN n0 % M ELSE n0)
UpInv == phase = "up" =>
  IF Kind = "lsb" THEN (acc + Sum(pend)) % M = Target
  ELSE (acc * Pow2(Len(pend)) + BitsVal(pend) * pt) % M = Target
ResultOK == phase = "done" => acc = Target
Depth == Len(pend) <= BitLen(IF n0 < 0 THEN M ELSE n0) + 1
Terminates == (phase = "down") ~> (phase = "done")
=============================================================================
