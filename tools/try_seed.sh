#!/bin/bash
# try_seed.sh <patch.diff> <check id> [more ids...]: run checks against a scratch copy of /repo's HEAD with the
# seeded change applied (VERIF_REPO), so /repo itself is never touched.  TIER=quick|thorough.
P=$(readlink -f "$1"); shift
TAG=$(echo "$P" | tr '/' '_' | tr -d '.')
D=$(mktemp -d /tmp/mut_XXXXXX)
git -C /repo archive HEAD | tar -x -C $D || exit 2
( cd $D && git init -q . && git apply "$P" ) || { echo "patch does not apply"; rm -rf $D; exit 2; }
for C in "$@"; do
  ( VERIF_REPO=$D VERIF_EVIDENCE_DIR=$D/evidence /verif/check $C --tier ${TIER:-quick} > /tmp/try_${TAG}_$C.log 2>&1; rc=$?
    echo "== $P $C exit=$rc $(grep -c VIOLATION /tmp/try_${TAG}_$C.log) violation line(s)"
    grep -A1 -m2 "VIOLATION" /tmp/try_${TAG}_$C.log | grep -v "^--" | cut -c1-300
    grep -m2 "MACHINERY" /tmp/try_${TAG}_$C.log ) &
done
wait
rm -rf $D
