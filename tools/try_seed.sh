#!/bin/bash
# try_seed.sh <patch.diff> <check id> [more ids...]: apply a seeded change to /repo, run the checks
# (in parallel), undo the change.  TIER=quick|thorough.  Output: one line per check.
P=$1; shift
git -C /repo diff --quiet || { echo "/repo is dirty"; exit 2; }
git -C /repo apply "$P" || exit 2
TAG=$(echo "$P" | tr '/' '_' | tr -d '.')
for C in "$@"; do
  ( /verif/check $C --tier ${TIER:-quick} > /tmp/try_${TAG}_$C.log 2>&1; rc=$?
    echo "== $P $C exit=$rc $(grep -c VIOLATION /tmp/try_${TAG}_$C.log) violation line(s)"
    grep -A1 -m2 "VIOLATION" /tmp/try_${TAG}_$C.log | grep -v "^--" | cut -c1-300
    grep -m2 "MACHINERY" /tmp/try_${TAG}_$C.log ) &
done
wait
git -C /repo checkout -- .
