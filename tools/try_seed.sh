#!/bin/bash
# try_seed.sh <patch.diff> <check id> [more ids...]: apply a seeded change to /repo, run checks, undo.
P=$1; shift
git -C /repo diff --quiet || { echo "/repo is dirty"; exit 2; }
git -C /repo apply "$P" || exit 2
for C in "$@"; do
  echo "=== $C on $(basename $(dirname $P))"
  /verif/check $C --tier ${TIER:-quick} > /tmp/try_seed_$C.log 2>&1; echo "exit=$?"
  grep -E "VIOLATION|KNOWN-FINDING|MACHINERY" /tmp/try_seed_$C.log | head -5
  grep -A1 "VIOLATION" /tmp/try_seed_$C.log | grep -v VIOLATION | head -3
done
git -C /repo checkout -- .
