#!/bin/bash
# run_all.sh [quick|thorough]: every registered check, one after the other, on /repo's working tree; evidence is rewritten
# by each check.  Prints one summary line per check; exit status 0 iff every check exited 0.
TIER=${1:-quick}; cd "$(dirname "$0")/.." || exit 2
rc=0
for c in C01 C02 C03 C04 C05 C06 C07 C08 C09 C10 C11 C12 C13 C14 C15 C16 C17 C18 C19 C20; do
  s=$(date +%s); ./check $c --tier $TIER > /tmp/runall_$c.log 2>&1; e=$?
  [ $e -ne 0 ] && rc=1
  echo "$c exit=$e $(( $(date +%s)-s ))s $(grep -c '^VIOLATION' /tmp/runall_$c.log) violation line(s) $(tail -n 1 /tmp/runall_$c.log | cut -c1-140)"
done
exit $rc
