#!/bin/bash
# try_batch.sh <ID> <check...>: run the checks against the three seeds /tmp/wt/<ID>/out/{1,2,3}, one after the other
ID=$1; shift
for n in 1 2 3; do
  /verif/tools/try_seed.sh /tmp/wt/$ID/out/$n/patch.diff "$@" 2>&1 | grep -v WARNING
done
