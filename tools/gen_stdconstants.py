#!/usr/bin/env python3
"""Write spec/StdConstants.tla: the PINNED standard parameters (typed in from the standards, not
read from the repository) as BigNat limb literals.  Everything else is derived inside the module
by TLC.  Re-running this script reproduces the committed module byte for byte."""
from pathlib import Path

PINS = {
    # BLS12-381: curve parameter x = -0xd201000000010000 (absolute value pinned, sign in the formulas)
    "BlsZ": 0xd201000000010000,
    # generators in ZCash compressed form (x coordinate(s); sign bit 0 = the smaller y)
    "BlsG1x": 0x17f1d3a73197d7942695638c4fa9ac0fc3688c4f9774b905a14e3a3f171bac586c55e83ff97a1aeffb3af00adb22c6bb,
    "BlsG2xIm": 0x13e02b6052719f607dacd3a088274f65596bd0d09920b61ab5da61bbdc7f5049334cf11213945d57e5ac7d055d042b7e,
    "BlsG2xRe": 0x024aa2b2f08f0a91260805272dc51051c6e47ad4fa403b02b4510b647ae3d1770bac0326a805bbefd48056c8c121bdb8,
    # alt_bn128 (EIP-196/197): curve parameter u, G1 = (1, 2), G2 as published
    "BnU": 4965661367192848881,
    "BnG2xRe": 10857046999023057135944570762232829481370756359578518086990519993285655852781,
    "BnG2xIm": 11559732032986387107991004021392285783925812861821192530917403151452391805634,
    "BnG2yRe": 8495653923123431417604973247489272438418190587263600148770280649306958101930,
    "BnG2yIm": 4082367875863433681332203403145435568316851327593401208105741076214120093531,
    # secp256k1 (SEC 2): order and generator
    "SecpN": 0xFFFFFFFFFFFFFFFFFFFFFFFFFFFFFFFEBAAEDCE6AF48A03BBFD25E8CD0364141,
    "SecpGx": 0x79BE667EF9DCBBAC55A06295CE870B07029BFCDB2DCE28D959F2815B16F81798,
    "SecpGy": 0x483ADA7726A3C4655DA4FBFC0E1108A8FD17B448A68554199C47D08FFB10D4B8,
}


def limbs(n):
    out = []
    while n:
        out.append(n & 32767)
        n >>= 15
    return out


def lit(n):
    return "<<" + ", ".join(str(x) for x in limbs(n)) + ">>"


BODY = r'''
(***************************************************************************)
(* Derived parameters (TLC computes them from the pins above)              *)
(***************************************************************************)
N(k) == OfInt(k)
Sq(a) == Mul(a, a)
RECURSIVE PowN(_, _)
PowN(a, k) == IF k = 0 THEN One ELSE Mul(a, PowN(a, k - 1))
\* exact division by a small number d (a limb): long division from the top limb
DivSmall(a, d) ==
  LET st == FoldLeft(LAMBDA acc, k :
                       LET t == acc.r * Base + a[Len(a) + 1 - k]
                       IN [r |-> t % d, q |-> <<t \div d>> \o acc.q],
                     [r |-> 0, q |-> <<>>], Ix(Len(a)))
  IN [q |-> Norm(st.q), r |-> st.r]

\* ---- BLS12-381 (x = -z):  r = x^4 - x^2 + 1,  p = (x-1)^2 r / 3 + x
BlsR   == Add(Sub(PowN(BlsZ, 4), Sq(BlsZ)), One)
BlsT   == Mul(Sq(Add(BlsZ, One)), BlsR)                 \* (x-1)^2 r = (z+1)^2 r
BlsP   == Sub(DivSmall(BlsT, 3).q, BlsZ)
BlsH1  == DivSmall(Sq(Add(BlsZ, One)), 3).q             \* cofactor of E(Fp): (x-1)^2 / 3
\* cofactor of E'(Fp2): (x^8 - 4x^7 + 5x^6 - 4x^4 + 6x^3 - 4x^2 - 4x + 13) / 9 at x = -z
BlsH2Num == Sub(Add(Add(Add(Add(PowN(BlsZ, 8), Mul(N(4), PowN(BlsZ, 7))), Mul(N(5), PowN(BlsZ, 6))),
                        Mul(N(4), BlsZ)), N(13)),
                Add(Add(Mul(N(4), PowN(BlsZ, 4)), Mul(N(6), PowN(BlsZ, 3))), Mul(N(4), Sq(BlsZ))))
BlsH2    == DivSmall(BlsH2Num, 9).q
BlsHEff1 == Add(BlsZ, One)                              \* RFC 9380 8.8.1: h_eff = 1 - x
BlsHEff2 == Mul(BlsH2, Sub(Mul(N(3), Sq(BlsZ)), N(3)))  \* RFC 9380 8.8.2: h_eff = h2 (3 x^2 - 3)
BlsAteLoop == BlsZ                                      \* |x|
\* ---- alt_bn128:  p = 36u^4 + 36u^3 + 24u^2 + 6u + 1,  r = p - 6u^2,  ate loop 6u + 2
BnP == Add(Add(Add(Add(Mul(N(36), PowN(BnU, 4)), Mul(N(36), PowN(BnU, 3))), Mul(N(24), Sq(BnU))),
               Mul(N(6), BnU)), One)
BnR == Sub(BnP, Mul(N(6), Sq(BnU)))
BnAteLoop == Add(Mul(N(6), BnU), N(2))
\* ---- secp256k1:  P = 2^256 - 2^32 - 977
Pow2(k) == FromBits([j \in 1..(k + 1) |-> IF j = k + 1 THEN 1 ELSE 0])
SecpP == Sub(Sub(Pow2(256), Pow2(32)), N(977))

(***************************************************************************)
(* Arithmetic in Fp and Fp2 = Fp[i]/(i^2 + 1) over BigNat (elements of Fp2 *)
(* are pairs <<re, im>>)                                                   *)
(***************************************************************************)
FAdd(p, a, b) == AddMod(a, b, p)
FSub(p, a, b) == SubMod(a, b, p)
FMul(p, a, b) == MulMod(a, b, p)
F2Add(p, a, b) == <<FAdd(p, a[1], b[1]), FAdd(p, a[2], b[2])>>
F2Mul(p, a, b) == <<FSub(p, FMul(p, a[1], b[1]), FMul(p, a[2], b[2])),
                    FAdd(p, FMul(p, a[1], b[2]), FMul(p, a[2], b[1]))>>
OnCurve1(p, b, x, y) == FMul(p, y, y) = FAdd(p, FMul(p, FMul(p, x, x), x), Mod(b, p))
OnCurve2(p, b, x, y) == F2Mul(p, y, y) = F2Add(p, F2Mul(p, F2Mul(p, x, x), x), b)
IsSmallerY(p, y) == Less(Double(y), p)                  \* the ZCash sign bit is 0

(***************************************************************************)
(* Facts TLC checks about the derived values themselves                    *)
(***************************************************************************)
SelfChecks ==
  /\ DivSmall(BlsT, 3).r = 0 /\ DivSmall(Sq(Add(BlsZ, One)), 3).r = 0 /\ DivSmall(BlsH2Num, 9).r = 0
  /\ Mod(BlsP, N(8)) = N(3)                             \* p = 3 mod 8 (hence 3 mod 4)
  /\ Mul(BlsH1, BlsR) = Add(BlsP, BlsZ)                 \* #E(Fp) = p + 1 - t with t = x + 1
  /\ Mod(BlsHEff2, BlsH2) = Zero /\ Mul(BlsHEff1, BlsHEff1) = Mul(N(3), BlsH1)
  /\ Len(ToBits(BlsP)) = 381 /\ Len(ToBits(BlsR)) = 255
  /\ Len(ToBits(BnP)) = 254 /\ Len(ToBits(BnR)) = 254 /\ Mod(BnP, N(4)) = N(3)
  /\ Len(ToBits(SecpP)) = 256 /\ Mod(SecpP, N(4)) = N(3) /\ Less(SecpN, SecpP)
  /\ OnCurve1(SecpP, N(7), SecpGx, SecpGy)
  /\ OnCurve1(BnP, N(3), One, N(2))
=============================================================================
'''


def main():
    out = ["---------------------------- MODULE StdConstants ----------------------------",
           "(***************************************************************************)",
           "(* The standard parameters of BLS12-381, alt_bn128 and secp256k1 that the  *)",
           "(* library's constants are specified against (C07, C17, C18, C09).          *)",
           "(* PINNED values (curve parameters, generators, secp256k1's order) are     *)",
           "(* BigNat limb literals generated by tools/gen_stdconstants.py from the    *)",
           "(* hexadecimal values of the standards; all other constants (field primes, *)",
           "(* group orders, cofactors, effective cofactors, loop counts) are DERIVED  *)",
           "(* below from the curve-family polynomials and checked by TLC.             *)",
           "(***************************************************************************)",
           "EXTENDS BigNat", ""]
    for k, v in PINS.items():
        out.append(f"\\* {k} = {hex(v)}")
        out.append(f"{k} == {lit(v)}")
    out.append(BODY.lstrip("\n"))
    Path(__file__).resolve().parent.parent.joinpath("spec", "StdConstants.tla").write_text("\n".join(out))


if __name__ == "__main__":
    main()
