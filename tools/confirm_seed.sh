#!/bin/bash
# confirm_seed.sh <ID> <n>: independently confirm a seeded change produced by a sub-agent.
# Uses the scratch worktree /tmp/wt/<ID>; writes /tmp/wt/<ID>/out/<n>/confirm.json
ID=$1; N=$2; WT=/tmp/wt/$ID; OUT=$WT/out/$N
cd $WT || exit 2
git checkout -q -- . || exit 2
cp $OUT/demo.py $WT/demo.py
PYTHONPATH=$WT timeout 1800 /venv/bin/python demo.py > $OUT/confirm_demo_unchanged.txt 2>&1; D0=$?
git apply $OUT/patch.diff || { echo "{\"ok\": false, \"why\": \"patch does not apply\"}" > $OUT/confirm.json; exit 1; }
PYTHONPATH=$WT timeout 1800 /venv/bin/python demo.py > $OUT/confirm_demo_changed.txt 2>&1; D1=$?
PYTHONPATH=$WT nice -n 5 /venv/bin/python -m pytest -q -p no:cacheprovider --timeout=900 tests > $OUT/confirm_tests.txt 2>&1; T=$?
SUMMARY=$(tail -1 $OUT/confirm_tests.txt | tr -d '"')
git checkout -q -- .
rm -f $WT/demo.py
OK=false; if [ $D0 -eq 0 ] && [ $D1 -ne 0 ] && [ $T -eq 0 ]; then OK=true; fi
echo "{\"ok\": $OK, \"demo_unchanged_exit\": $D0, \"demo_changed_exit\": $D1, \"tests_exit\": $T, \"tests_summary\": \"$SUMMARY\"}" > $OUT/confirm.json
cat $OUT/confirm.json
