#!/venv/bin/python
"""Demonstrate the binding of the trace specifications: a recorded trace of the real code is accepted, and the same
trace with ONE corrupted field (an id, a scalar limb, an observation, a dropped event) is rejected by TLC.
Usage:  tools/selftest_binding.py      (prints one line per experiment; exit 0 iff all behave as expected)"""
import copy
import json
import sys
from pathlib import Path

sys.path.insert(0, str(Path(__file__).resolve().parent.parent))
from harness import grouptrace, purity  # noqa: E402
from harness.core import Ctx  # noqa: E402


def run_group(ctx, tr, tag):
    d = ctx.tmp / f"st_{tag}"
    d.mkdir(exist_ok=True)
    (d / "trace.ndjson").write_text("".join(json.dumps(e) + "\n" for e in tr["events"]))
    (d / "params.ndjson").write_text(json.dumps(tr["params"]) + "\n")
    res = ctx.tlc("GroupTrace", grouptrace.CFG, env={"TRACE": str(d / "trace.ndjson"), "PARAMS": str(d / "params.ndjson")},
                  workers=1, name=f"selftest_{tag}", quiet=True)
    consumed = any(ln.startswith('<<"consumed"') for ln in res.out.splitlines())
    return (not res.violations) and consumed


def main():
    ctx = Ctx("SELFTEST", "quick", 0)
    ok = True
    try:
        tr = grouptrace.build_secp((7, "quick"))
        exps = [("unmodified", tr, True)]
        t2 = copy.deepcopy(tr)
        muls = [k for k, e in enumerate(t2["events"]) if e["op"] == "mul" and e["n"]]
        t2["events"][muls[5]]["id"] = t2["events"][muls[6]]["id"]
        exps.append(("one result id replaced by another register's id", t2, False))
        t3 = copy.deepcopy(tr)
        t3["events"][muls[7]]["n"][0] ^= 1
        exps.append(("lowest bit of one recorded scalar flipped", t3, False))
        t4 = copy.deepcopy(tr)
        adds = [k for k, e in enumerate(t4["events"]) if e["op"] == "add"]
        t4["events"][adds[3]]["a"], t4["events"][adds[3]]["b"] = 1, 1
        exps.append(("operands of one add event replaced (G + G)", t4, False))
        t5 = copy.deepcopy(tr)
        del t5["events"][muls[2]]
        exps.append(("one event dropped (register numbering shifts)", t5, False))
        tb = grouptrace.build_trace(("optimized_bls12_381", 1, 3, 11, "quick"))
        t6 = copy.deepcopy(tb)
        subs = [k for k, e in enumerate(t6["events"]) if e["op"] == "sub"]
        t6["events"][subs[2]]["res"] ^= 1
        exps += [("bls G1 trace unmodified", tb, True), ("one subgroup_check observation flipped", t6, False)]
        for k, (what, t, expect) in enumerate(exps):
            got = run_group(ctx, t, str(k))
            good = got == expect
            ok = ok and good
            print(f"{'OK ' if good else 'BAD'} GroupTrace: {what}: {'accepted' if got else 'rejected'}")
        # table specifications: one corrupted field of one row
        import random
        from harness import coordbig, polyeuclid, tables, toy, fields as hfields

        def table(module, rows, files=None, spec="Spec"):
            d = ctx.tmp / f"st_{module}_{random.randrange(10 ** 9)}"
            d.mkdir()
            env = {"TABLE": str(d / "t.ndjson")}
            tables.write_ndjson(d / "t.ndjson", rows)
            for k_, v_ in (files or {}).items():
                tables.write_ndjson(d / f"{k_}.ndjson", v_)
                env[k_] = str(d / f"{k_}.ndjson")
            res = ctx.tlc(module, tables.cfg(["RowsOK"], spec=spec), env=env, name=f"selftest_{module}", quiet=True,
                          eval_as_violation=True)
            return not res.violations
        rows = [r for r in coordbig.secp_rows(ctx, random.Random(3)) if not r.get("exc")]
        for r in rows:
            r.setdefault("exc", "")
        bad = copy.deepcopy(rows)
        k_ = next(i for i, r in enumerate(bad) if r["op"] == "add" and r["r"])
        bad[k_]["r"][0][0][0] ^= 1                                     # lowest bit of the x-coordinate of one result
        bad2 = copy.deepcopy(rows)
        bad2[k_]["w"][0][0] ^= 1                                       # ... of one slope witness
        for what, t, expect in (("unmodified", rows, True), ("one result coordinate changed by one bit", bad, False),
                                ("one slope witness changed by one bit", bad2, False)):
            got = table("CoordBig", t)
            ok = ok and got == expect
            print(f"{'OK ' if got == expect else 'BAD'} CoordBig: {what}: {'accepted' if got else 'rejected'}")
        f = [x for x in hfields.CATALOGUE if x["name"] == "GF7^2"][0]
        cls = toy.field_classes(7, 2, f["mc"], "ref")
        prow = []
        for x in ([3, 4], [1, 6], [5, 0]):
            res_, st = polyeuclid.record(cls, 2, 7, toy.mk(cls, 2, x))
            prow.append({"f": 1, "fam": "ref", "x": x, "states": st, "res": toy.proj(res_, 2), "exc": ""})
        pbad = copy.deepcopy(prow)
        pbad[0]["states"][1]["lm"][0] = (pbad[0]["states"][1]["lm"][0] + 1) % 7      # one coefficient of one loop state
        for what, t, expect in (("unmodified", prow, True), ("one coefficient of one recorded loop state changed", pbad, False)):
            got = table("PolyEuclidTrace", t, files={"FIELDS": [hfields.spec_field(f)]}, spec="TSpec")
            ok = ok and got == expect
            print(f"{'OK ' if got == expect else 'BAD'} PolyEuclidTrace: {what}: {'accepted' if got else 'rejected'}")
    finally:
        ctx.cleanup()
    return 0 if ok else 1


if __name__ == "__main__":
    sys.exit(main())
