#!/usr/bin/env python3
"""keep_seed.py <ID> <n> <checks that caught it, comma separated | none> [note]
Copy a confirmed seeded change from /tmp/wt/<ID>/out/<n> to /verif/seeded/<ID>-<n>/ with meta.json."""
import json
import shutil
import sys
from pathlib import Path

pid, n, caught = sys.argv[1:4]
note = sys.argv[4] if len(sys.argv) > 4 else ""
src = Path(f"/tmp/wt/{pid}/out/{n}")
conf = json.load(open(src / "confirm.json"))
assert conf["ok"], conf
meta = json.load(open(src / "meta.json"))
dst = Path(f"/verif/seeded/{pid}-{n}")
dst.mkdir(parents=True, exist_ok=True)
shutil.copy(src / "patch.diff", dst / "patch.diff")
shutil.copy(src / "demo.py", dst / "demo.py")
meta_out = {
    "property": pid[:3],
    "summary": meta.get("summary"),
    "needs_to_manifest": meta.get("needs"),
    "files": meta.get("files"),
    "origin": "independent sub-agent given only the property text and a scratch worktree",
    "confirmed": {
        "how": "tools/confirm_seed.sh in a scratch worktree: demo.py on the unchanged tree, patch applied, "
               "demo.py again, full pytest suite with the patch",
        "demo_unchanged_exit": conf["demo_unchanged_exit"],
        "demo_changed_exit": conf["demo_changed_exit"],
        "tests": conf["tests_summary"].strip("= "),
    },
    "checks_run": "tools/try_seed.sh <patch> <checks> (git -C /repo apply; ./check <id> --tier quick; git checkout)",
    "caught_by_quick": [c for c in caught.split(",") if c and c != "none"],
    "note": note,
}
(dst / "meta.json").write_text(json.dumps(meta_out, indent=1) + "\n")
print("kept", dst)
