#!/usr/bin/env python3
"""Regenerate the seeded-changes table in DESIGN.md (between the SEEDED markers) from seeded/*/meta.json."""
import json
from pathlib import Path

V = Path(__file__).resolve().parent.parent
rows = []
for d in sorted((V / "seeded").iterdir()):
    m = json.load(open(d / "meta.json"))
    summ = (m.get("summary") or "").replace("|", "/").replace("\n", " ")
    if len(summ) > 230:
        summ = summ[:227] + "..."
    note = (m.get("note") or "").replace("|", "/")
    rows.append(f"| {d.name} | {m['property']} | {summ} | {', '.join(m['caught_by_quick']) or 'none'} | {note} |")
table = ["| seed | property | change (needs something specific to manifest; the full suite still passes) | caught by (quick tier) | what it took |",
         "|---|---|---|---|---|"] + rows
p = V / "DESIGN.md"
s = p.read_text()
a, b = s.index("<!-- SEEDED:BEGIN -->"), s.index("<!-- SEEDED:END -->")
s = s[:a] + "<!-- SEEDED:BEGIN -->\n" + "\n".join(table) + "\n" + s[b:]
p.write_text(s)
print(len(rows), "seeds")
