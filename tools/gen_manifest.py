#!/usr/bin/env python3
"""Regenerate /verif/MANIFEST.json from the table below (single source of truth)."""
import json
import sys
from pathlib import Path

V = Path(__file__).resolve().parent.parent
ALL = [f"C{i:02d}" for i in range(1, 21)]

CHECKS = json.load(open(V / "tools" / "checks.json"))
NOT_YET = "no check built (see DESIGN.md)"


def main():
    checks = []
    for pid, c in sorted(CHECKS.items()):
        tech, text, note, ref = c['technique'], c['text'], c['note'], c['ref']
        checks.append({
            "property_id": pid,
            "quick_cmd": f"./check {pid} --tier quick",
            "thorough_cmd": f"./check {pid} --tier thorough",
            "evidence_file": f"/verif/evidence/{pid}.json",
            "replay_cmd_template": f"./check {pid} --replay {{path}}",
            "engine": "tlc",
            "level_claimed": {"category": "model_checking", "text": text, "design_ref": ref},
            "level_note": note,
            "technique": tech,
        })
    man = {
        "version": 1,
        "setup_cmd": "true",
        "hooks": {
            "guard": "PY_ECC_VERIF",
            "enable": "no source hooks: the harness instantiates the real classes with toy parameters, "
                      "loads private copies of modules from /repo's working tree and installs wrappers "
                      "at run time; PY_ECC_VERIF is reserved and unused",
            "baseline_off_cmd": "cd /repo && /venv/bin/python -m pytest -ra -q -p no:cacheprovider "
                                "--timeout=900 --continue-on-collection-errors",
            "source_commits": [],
            "add_only": True,
        },
        "engines": [{
            "name": "tlc",
            "path": "/verif/spec",
            "serves_properties": sorted(CHECKS),
            "kind_free_text": "explicit TLA+ specification checked with TLC 1.8; bound to the code by "
                              "table/trace validation (code -> spec) and replay of TLC-generated "
                              "behaviours (spec -> code)",
        }],
        "checks": checks,
        "not_applicable": [{"property_id": p, "reason": NOT_YET} for p in ALL if p not in CHECKS],
        "notes": "fix: commits in /repo (recorded in known_findings.json): iterative __pow__, "
                 "optimized eq() on z == 0, KeyValidate length gate.",
    }
    (V / "MANIFEST.json").write_text(json.dumps(man, indent=1) + "\n")
    try:
        import jsonschema
        jsonschema.validate(man, json.load(open("/root/.vp/MANIFEST.schema.json")))
        print("MANIFEST.json valid;", len(checks), "checks")
    except ImportError:
        print("jsonschema not available; wrote MANIFEST.json unvalidated")


if __name__ == "__main__":
    sys.exit(main())
